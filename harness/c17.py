"""C17 — pulse addressing: sources and loads act on exactly the pulse the user named.

Proof side : Pmn/Props/C17.lean (absolute / per-object resolution, rejection, all-pulses attachment
             = every pulse exactly once, junction ownership, tag assignment and order).
Tie        : tags and processing order, `register_source` / `register_load` for every valid and
             some invalid (pulse, tag) pair, `load.pulses` of all-attachments, pulse numbers printed
             in the geometry table blocks and in the source / load listings — vs the Lean model.
Search     : the property on the implementation (table row <-> resolved pulse, each pulse once).
"""
import re, json
import numpy as np
import topo

LEVEL = 'proof'
MODULES = ['C17']


def geometry_blocks(m):
    """pulse numbers printed per object block of the ANTENNA GEOMETRY table"""
    txt = m.wires_as_mininec()
    txt = txt[txt.index('**** ANTENNA GEOMETRY ****'):]
    blocks, cur = [], None
    for l in txt.split('\n'):
        mm = re.match(r'^(\S+) NO\.\s+(\d+) COORDINATES', l)
        if mm:
            cur = dict(tag=int(mm.group(2)), rows=[])
            blocks.append(cur)
            continue
        if cur is None or l.startswith('X ') or not l.strip():
            continue
        t = l.split()
        if t[0] == '-':
            continue      # placeholder row of an object without pulses
        # a row ends with END1 END2 NO.; objects without pulses print a row with dashes / no number
        try:
            cur['rows'].append(int(t[-1]))
        except ValueError:
            pass
    return blocks


def impl_query(m, q):
    from mininec.mininec import Excitation, Impedance_Load
    kind, a, b = q
    try:
        if kind == 'abs':
            s = Excitation(1 + 0j)
            m.register_source(s, a)
            m.sources.remove(s)
            return s.idx
        if kind == 'rel':
            s = Excitation(1 + 0j)
            m.register_source(s, a, b)
            m.sources.remove(s)
            return s.idx
        if kind == 'all':
            l = Impedance_Load(5 + 0j)
            m.register_load(l, None, None if b < 0 else b)
            m.loads.remove(l)
            return [p.idx for p in l.pulses]
    except ValueError as e:
        return 'error'
    except KeyError as e:
        return 'error'


def impl_query_load(m, q):
    from mininec.mininec import Impedance_Load
    kind, a, b = q
    try:
        l = Impedance_Load(5 + 0j)
        if kind == 'abs':
            m.register_load(l, a)
        else:
            m.register_load(l, a, b)
        if l in m.loads:
            m.loads.remove(l)
        ps = [p.idx for p in l.pulses]
        # a load addressed by one pulse number is attached to exactly that pulse
        return ps[0] if len(ps) == 1 else ('attached-to', ps)
    except (ValueError, KeyError):
        return 'error'


def gen_queries(rng, obs, tags):
    N = len(obs['pulses'])
    qs = []
    for k in range(-1, N + 2):
        qs.append(('abs', k, 0))
    for o in obs['objs']:
        for k in range(-1, len(o['pulses']) + 1):
            qs.append(('rel', k, o['tag']))
        qs.append(('all', 0, o['tag']))
    qs.append(('all', 0, -1))
    mt = max(tags) + 1
    qs.append(('rel', 0, mt))
    qs.append(('all', 0, mt))
    if len(qs) > 60:
        keep = qs[-4:]
        qs = rng.sample(qs[:-4], 56) + keep
    return qs


def property_on_impl(m, obs):
    """the property as worded on the implementation"""
    blocks = geometry_blocks(m)
    tags = [o['tag'] for o in obs['objs']]
    if [b['tag'] for b in blocks] != sorted(tags):
        return 'geometry blocks not in tag order: %r' % [b['tag'] for b in blocks]
    N = len(obs['pulses'])
    seen = []
    for b in blocks:
        for k, no in enumerate(b['rows']):
            r = impl_query(m, ('rel', k, b['tag']))
            if r != no - 1:
                return 'pulse %d of object tag %d resolves to %r, table row says number %d' % (k + 1, b['tag'], r, no)
            r2 = impl_query(m, ('abs', no - 1, 0))
            if r2 != no - 1:
                return 'absolute pulse %d resolves to %r' % (no, r2)
            for q in (('rel', k, b['tag']), ('abs', no - 1, 0)):
                r3 = impl_query_load(m, q)
                if r3 != no - 1:
                    return 'a load attached to %s is attached to %r, the table row says number %d' % (
                        'pulse %d of object tag %d' % (k + 1, b['tag']) if q[0] == 'rel' else 'absolute pulse %d' % no, r3, no)
            seen.append(no)
        al = impl_query(m, ('all', 0, b['tag']))
        if sorted(al) != sorted(x - 1 for x in b['rows']) or len(set(al)) != len(al):
            return 'all pulses of object %d attach %r, block has %r' % (b['tag'], al, b['rows'])
    al = impl_query(m, ('all', 0, -1))
    if sorted(al) != list(range(N)):
        return 'all pulses of the antenna attach %r for N=%d' % (al, N)
    if sorted(seen) != list(range(1, N + 1)):
        return 'geometry table numbers %r for N=%d' % (sorted(seen), N)
    # junction pulse belongs to the later-tagged object
    for i, p in enumerate(obs['pulses']):
        if p[0] != p[1]:
            ta, tb = obs['objs'][p[0]]['tag'], obs['objs'][p[1]]['tag']
            if obs['objs'][p[5]]['tag'] != max(ta, tb):
                return 'junction pulse %d listed with tag %d, joins %d and %d' % (i + 1, obs['objs'][p[5]]['tag'], ta, tb)
    return None


def action_property(m, rng, seed=None):
    """sources and loads *act* on exactly the pulse named: the diagonal of the matrix gets the load's term on the
    pulses the attachments name (as often as they name them; rows of the printed geometry table are the reference),
    nothing else changes; the right-hand side is non-zero exactly on the named source pulse.  Attachments of one
    load may overlap (`all` plus a single pulse, both forms for one pulse)."""
    import random
    from mininec.mininec import Excitation, Impedance_Load
    rng = random.Random(seed) if seed is not None else rng
    blocks = [b for b in geometry_blocks(m)]
    N = len(m.pulses)
    if N == 0:
        return None
    rows = {b['tag']: [x - 1 for x in b['rows']] for b in blocks}
    nonempty = [t for t in rows if rows[t]]
    zl = complex(37.0, 11.0)
    ld = Impedance_Load(zl)
    want = {}
    desc = []
    for _ in range(rng.choice([1, 2, 2, 3])):
        form = rng.choice(['abs', 'rel', 'allobj', 'all', 'both-forms'])
        if form in ('rel', 'allobj', 'both-forms') and not nonempty:
            form = 'abs'
        if form == 'abs':
            p = rng.randrange(N); m.register_load(ld, p); named = [p]; desc.append('pulse %d' % (p + 1))
        elif form == 'rel':
            t = rng.choice(nonempty); k = rng.randrange(len(rows[t])); m.register_load(ld, k, t); named = [rows[t][k]]
            desc.append('pulse %d of object %d' % (k + 1, t))
        elif form == 'allobj':
            t = rng.choice(nonempty); m.register_load(ld, None, t); named = list(rows[t]); desc.append('all of object %d' % t)
        elif form == 'all':
            m.register_load(ld); named = list(range(N)); desc.append('all')
        else:
            t = rng.choice(nonempty); k = rng.randrange(len(rows[t])); p = rows[t][k]
            m.register_load(ld, k, t); m.register_load(ld, p); named = [p, p]
            desc.append('pulse %d of object %d and absolute pulse %d' % (k + 1, t, p + 1))
        for p in named:
            want[p] = want.get(p, 0) + 1
    try:
        m.compute_impedance_matrix()
        Z0 = m.Z.copy()
        m.compute_impedance_matrix_loads()
        dZ = m.Z - Z0
    finally:
        if ld in m.loads:
            m.loads.remove(ld)
        m.Z = None
    exp = np.zeros((N, N), dtype=complex)
    for p, c in want.items():
        g = 2.0 if (m.media and m.pulses[p].ground.any()) else 1.0
        exp[p, p] = -1j * g / m.m * zl * c
    sc = abs(zl) / m.m
    if np.max(np.abs(dZ - exp)) > 1e-9 * sc:
        k = int(np.argmax(np.abs(np.diag(dZ - exp))))
        got = dZ[k, k] / (-1j / m.m * (2.0 if (m.media and m.pulses[k].ground.any()) else 1.0))
        return ('a %r ohm load attached to [%s]: pulse %d carries %r ohm, the attachments name it %d time(s)'
                % (zl, '; '.join(desc), k + 1, complex(np.round(got, 6)), want.get(k, 0)))
    # a source in either form
    t = rng.choice(nonempty) if nonempty else None
    forms = [('abs', rng.randrange(N), None)]
    if t is not None:
        k = rng.randrange(len(rows[t])); forms.append(('rel', k, t))
    for kind, a, b in forms:
        s = Excitation(complex(2.0, -1.0))
        if kind == 'abs':
            m.register_source(s, a); p = a
        else:
            m.register_source(s, a, b); p = rows[b][a]
        try:
            m.compute_rhs()
            rhs = m.rhs.copy()
        finally:
            m.sources.remove(s); m.rhs = None
        nz = [int(i) for i in np.nonzero(rhs)[0]]
        if nz != [p]:
            return 'a source on %s excites pulses %r, the geometry table names pulse %d' % (
                'absolute pulse %d' % (a + 1) if kind == 'abs' else 'pulse %d of object %d' % (a + 1, b), [i + 1 for i in nz], p + 1)
    # several sources with different voltages, named in an arbitrary (mostly not ascending) order of pulse numbers:
    # every voltage acts on the pulse it was given for
    if N >= 3:
        ps = rng.sample(range(N), min(N, rng.choice([2, 3])))
        if ps == sorted(ps):
            ps.reverse()
        vs = [complex(1.0 + k, 0.5 - 2 * k) for k in range(len(ps))]
        ss = []
        for p, v in zip(ps, vs):
            s_ = Excitation(v); m.register_source(s_, p); ss.append(s_)
        try:
            m.compute_rhs()
            rhs = m.rhs.copy()
        finally:
            for s_ in ss:
                m.sources.remove(s_)
            m.rhs = None
        for p, v in zip(ps, vs):
            g = 2.0 if (m.media and m.pulses[p].ground.any()) else 1.0
            acting = rhs[p] / (-1j * g / m.m)
            if abs(acting - v) > 1e-9 * abs(v):
                return ('sources named for pulses %r with voltages %r: the voltage acting on pulse %d is %r'
                        % ([q + 1 for q in ps], vs, p + 1, complex(np.round(acting, 9))))
    return None


def spec_argv(spec, f=10.0):
    """the command line of a wire-graph spec (what `topo.build_impl` builds through the API)"""
    argv = ['-f', repr(f)]
    r = 0.001 * spec.get('size', 1.0)
    for w in spec['wires']:
        v = [str(w['nseg'])] + [repr(float(x)) for x in list(w['p0']) + list(w['p1'])] + [repr(r)]
        if w['tag'] is not None:
            v.insert(0, str(w['tag']))
        argv += ['-w', ','.join(v)]
    if spec['ground']:
        argv.append('--medium=0,0,0')
    return argv


def cli_property(spec, seed):
    """the same through the command line: several `--excitation-pulse` and `--attach-load` options of both forms, mixed
    and in arbitrary order, each with its own voltage / load; every source and every attachment of the model `main`
    builds sits on the pulse the geometry table of that model prints for the name the user gave"""
    import random
    from common import run_main
    rng = random.Random(seed)
    base = spec_argv(spec)
    m0 = run_main(base + ['--excitation-pulse=1'], want_mininec=True)['m']
    if m0 is None:
        return None
    blocks = geometry_blocks(m0)
    rows = {b['tag']: [x - 1 for x in b['rows']] for b in blocks}
    nonempty = [t for t in rows if rows[t]]
    N = len(m0.pulses)
    if N < 2 or not nonempty:
        return None
    argv = list(base)
    # sources
    ns = min(N, rng.choice([2, 2, 3, 4]))
    targets = rng.sample(range(N), ns)
    want_src, sdesc = [], []
    for i, p in enumerate(targets):
        v = complex(1 + i, 0.5 - i)
        owners = [(t, rows[t].index(p)) for t in nonempty if p in rows[t]]
        if owners and rng.random() < 0.55:
            t, k = rng.choice(owners)
            argv.append('--excitation-pulse=%d,%d' % (k + 1, t)); sdesc.append('%d,%d' % (k + 1, t))
        else:
            argv.append('--excitation-pulse=%d' % (p + 1)); sdesc.append('%d' % (p + 1))
        argv.append('--excitation-voltage=%r' % v)
        want_src.append((p, v))
    # loads
    want_ld = []
    nl_ = rng.choice([0, 1, 2, 2])
    same_ = rng.random() < 0.5               # two separately defined loads of the same value (one coil in each half of a dipole)
    for li in range(nl_):
        z = complex(10, 3) if same_ else complex(10 + 7 * li, 3 - li)
        argv.append('--load=%r' % z)
        named, ldesc = [], []
        for _ in range(rng.choice([1, 2, 3])):
            form = rng.choice(['abs', 'rel', 'allobj', 'all'])
            if form == 'abs':
                p = rng.randrange(N); named.append(p); a = '%d,%d' % (li + 1, p + 1)
            elif form == 'rel':
                t = rng.choice(nonempty); k = rng.randrange(len(rows[t])); named.append(rows[t][k]); a = '%d,%d,%d' % (li + 1, k + 1, t)
            elif form == 'allobj':
                t = rng.choice(nonempty); named += rows[t]; a = '%d,all,%d' % (li + 1, t)
            else:
                named += list(range(N)); a = '%d,all' % (li + 1)
            argv.append('--attach-load=' + a); ldesc.append(a)
        want_ld.append((z, sorted(named), ldesc))
    r = run_main(argv, want_mininec=True)
    m = r['m']
    if m is None:
        msg = (r['err'] or r['out'] or str(r['exc'])).strip().split('\n')[-1][:160]
        return 'sources %r, attachments %r: the valid command line is refused (%s)' % (sdesc, [w[2] for w in want_ld], msg)
    if [[x - 1 for x in b['rows']] for b in geometry_blocks(m)] != [[x - 1 for x in b['rows']] for b in blocks]:
        return 'the geometry table depends on the sources / loads given'
    got = [(s.idx, complex(s.voltage)) for s in m.sources]
    if len(got) != len(want_src) or any(g[0] != w[0] or abs(g[1] - w[1]) > 1e-12 for g, w in zip(got, want_src)):
        return ('sources named %r (table pulses %r): the model has sources on pulses %r'
                % (sdesc, [p + 1 for p, _ in want_src], [g[0] + 1 for g in got]))
    listed = [int(x) for x in re.findall(r'DEGREES\):\s*(\d+)', m.sources_as_mininec())]
    if listed != [p + 1 for p, _ in want_src]:
        return 'sources named %r: the source listing names pulses %r, the table %r' % (sdesc, listed, [p + 1 for p, _ in want_src])
    for (z, named, ldesc), l in zip(want_ld, m.loads):
        gp = sorted(p.idx for p in l.pulses)
        if gp != named:
            return 'load attached as %r: it sits on pulses %r, the table names %r' % (ldesc, [x + 1 for x in gp], [x + 1 for x in named])
    if len(m.loads) != len(want_ld):
        return '%d loads defined, the model has %d' % (len(want_ld), len(m.loads))
    return None


def attach_field_tie(d, ck):
    """`--attach-load` with every combination of field kinds (integers 0, 1, 2, 3, 9, -1, the keyword `all`, a word, an empty
    field) in 1-4 fields, one load defined: accepted or refused as the Lean field parser says, and when accepted the load
    sits where `register_load` puts it for the parsed (pulse, tag).  Returns (disagreements, violations)."""
    import itertools
    from common import run_main
    from mininec.mininec import Impedance_Load
    base = ['-f', '10', '-w', '1,4,0,0,0,0,0,4,.001', '-w', '3,3,0,0,4,2,0,5,.001', '--excitation-pulse=1', '--load=5']
    vals = ['0', '1', '2', '3', '9', '-1', 'all', 'x', '']
    dis, viol = [], []
    for k in (1, 2, 3, 4):
        for fs in itertools.product(vals, repeat=k):
            if k == 4 and fs[0] not in ('1', 'all'):
                continue
            toks = []
            for v in fs:
                toks.append('all' if v == 'all' else 'junk' if v in ('x', '') else ('i' + v))
            ans = d.ask('cmd parseatt', 1, k, *toks)
            argv = base + ['--attach-load=' + ','.join(fs)]
            r = run_main(argv, want_mininec=True)
            ck.count('attach_field_cases')
            if r['kind'] == 'crash':
                viol.append(dict(kind='attach-fields', argv=argv, observed='--attach-load=%s: %s' % (','.join(fs), r['exc'])))
                continue
            if ans == 'error':
                if r['m'] is not None:
                    dis.append(dict(argv=argv, why='--attach-load=%s accepted by main, refused by the field model' % ','.join(fs)))
                continue
            _, l, p, t = ans.split()
            pulse = None if p == '-' else int(p)
            tag = None if t == '-' else int(t)
            m0 = run_main(base[:-1], want_mininec=True)['m']
            ld = Impedance_Load(5 + 0j)
            try:
                m0.register_load(ld, pulse, tag)
                want = sorted(q.idx for q in ld.pulses)
            except (ValueError, KeyError):
                want = None
            if want is None:
                if r['m'] is not None:
                    viol.append(dict(kind='attach-fields', argv=argv,
                                     observed='--attach-load=%s is accepted although pulse %r of tag %r does not exist' % (','.join(fs), pulse, tag)))
                continue
            if r['m'] is None:
                dis.append(dict(argv=argv, why='--attach-load=%s refused by main (%s), the field model and register_load accept it'
                                % (','.join(fs), (r['err'] or r['out']).strip().split('\n')[-1][:80])))
                continue
            got = sorted(q.idx for q in r['m'].loads[0].pulses)
            if got != want:
                viol.append(dict(kind='attach-fields', argv=argv,
                                 observed='--attach-load=%s loads pulses %r, the named pulses are %r' % (','.join(fs), [x + 1 for x in got], [x + 1 for x in want])))
    return dis, viol


def replay(rp):
    if rp.get('kind') == 'curved':
        bad = curved_property(rp['name'])
        print('replay', rp['name'], '->', bad or 'property holds')
        return 1 if bad else 0
    if rp.get('kind') == 'attach-fields':
        from common import run_main
        r = run_main(rp['argv'], want_mininec=True)
        print('replay', rp['argv'][-1], '->', r['kind'], r['exc'] or (r['err'] or '').strip()[-100:])
        return 1 if r['kind'] == 'crash' else 0
    if rp.get('kind') == 'cli':
        bad = cli_property(rp['spec'], rp['cli_seed'])
        print('replay ->', bad or 'property holds')
        return 1 if bad else 0
    if rp.get('kind') == 'action':
        m = topo.build_impl(rp['spec'])
        bad = action_property(m, None, seed=rp['action_seed'])
        print('replay ->', bad or 'property holds')
        return 1 if bad else 0
    spec = rp.get('spec')
    if not spec:
        print('replay: nothing to execute:', rp.get('kind'))
        return 1
    m = topo.build_impl(spec)
    bad = property_on_impl(m, topo.observe_impl(m))
    print('replay ->', bad or 'property holds')
    return 1 if bad else 0


def curved_property(name):
    import c12
    mk = dict(c12.curved_cases())[name]
    m = c12.build_curved(name, mk)
    try:
        return property_on_impl(m, topo.observe_impl(m))
    except Exception as e:
        return 'addressing raised %s: %s' % (type(e).__name__, e)


def run(ck):
    ck.proof_side()
    d = ck.get_driver()
    n = 500 if ck.tier == 'quick' else 6000
    dis = []
    nq = 0
    # arcs, helices, loops closed on themselves and through other objects (C12's list): row k of the block of an object is what
    # `k, tag` resolves to, for sources and loads; `all` forms attach the rows of the block
    import c12
    for name, _ in c12.curved_cases():
        bad = curved_property(name)
        ck.case(('curved', name), True)
        ck.count('curved_addressing_cases')
        if bad:
            ck.violation(dict(kind='curved', name=name, observed=bad))
            return
    for i in range(n):
        spec = topo.gen_structure(ck.rng, max_wires=6)
        try:
            m = topo.build_impl(spec)
        except Exception:
            ck.count('impl_rejected')
            continue
        obs = topo.observe_impl(m)
        tags = [o['tag'] for o in obs['objs']]
        qs = gen_queries(ck.rng, obs, tags)
        r = topo.parse_model(d.ask(topo.model_request(spec, obs, m, qs)))
        ck.case((spec['tagmode'],) + topo.shape_key(spec, obs), len(obs['objs']) > 1,
                sample=dict(tags=[w['tag'] for w in spec['wires']], wires=[(w['nseg'], w['p0'], w['p1']) for w in spec['wires']]))
        ck.count('tagmode_' + spec['tagmode'])
        why = None
        if r['status'] != 'ok':
            why = 'model status ' + r['status']
        else:
            # tags in creation order and processing order
            if sorted(r['tags']) != sorted(tags) or [r['tags'][c] for c in r['order']] != tags:
                why = 'tags/order'
            for k, (a, b) in enumerate(zip(r['objs'], obs['objs'])):
                if a['pulses'] != b['pulses']:
                    why = 'per-object pulse list'
            blocks = geometry_blocks(m)
            if not why and [[x - 1 for x in b['rows']] for b in blocks] != [o['pulses'] for o in r['objs']]:
                why = 'geometry table blocks'
            for q, ans in zip(qs, r['answers']):
                nq += 1
                want = 'error' if isinstance(ans, str) else ans
                got = impl_query(m, q)
                if got != want:
                    why = 'query %r: implementation %r, model %r' % (q, got, want)
                if q[0] != 'all':
                    got2 = impl_query_load(m, q)
                    if got2 != want:
                        why = 'load query %r: implementation %r, model %r' % (q, got2, want)
            # listings name idx+1
            if not why and len(obs['pulses']) > 0:
                from mininec.mininec import Excitation, Impedance_Load
                p = ck.rng.randrange(len(obs['pulses']))
                s = Excitation(1 + 0j); m.register_source(s, p)
                l = Impedance_Load(7 + 0j); m.register_load(l, p)
                st = m.sources_as_mininec(); lt = m.loads_as_mininec()
                m.sources.remove(s); m.loads.remove(l)
                ms = re.search(r'DEGREES\):\s*(\d+)', st)
                ml = re.search(r'REACTANCE:\s*(\d+)', lt)
                if not ms or int(ms.group(1)) != p + 1 or not ml or int(ml.group(1)) != p + 1:
                    why = 'source/load listing for pulse %d' % (p + 1)
        if why:
            dis.append(dict(spec=spec, why=why))
        elif i % 2 == 0 and 0 < len(obs['pulses']) <= 25:
            aseed = ck.rng.randrange(10 ** 9)
            ck.count('action_cases')
            try:
                bad = action_property(m, None, seed=aseed)
            except Exception as e:
                bad = 'evaluation raised %s: %s' % (type(e).__name__, e)
            if bad:
                ck.violation(dict(kind='action', spec=spec, action_seed=aseed, observed=bad))
                return
        if not why and i % 4 == 1 and 2 <= len(obs['pulses']) <= 40:
            cseed = ck.rng.randrange(10 ** 9)
            ck.count('cli_cases')
            bad = cli_property(spec, cseed)
            if bad:
                ck.violation(dict(kind='cli', spec=spec, cli_seed=cseed, observed=bad))
                return
    adis, aviol = attach_field_tie(d, ck)
    dis += adis
    for v in aviol[:3]:
        ck.violation(v)
    if aviol:
        return
    ck.stats['disagreements'] = len(dis)
    ck.stats['queries'] = nq
    ck.cov['rule'] = ('random wire graphs with automatic / explicit permuted / sparse / mixed tags; every absolute number -1..N+1, '
                      'every (k, tag) incl. k = 0 and k = count+1, unknown tags, all-of-object and all attachments, through both '
                      'register_source and register_load; geometry table blocks and listings parsed; non-trivial = more than one object')
    ck.assumptions += ['arcs and helices use the same Geobj pulse lists as wires (checked by reading the code; generated structures here are wires)']
    if dis or ck.broken:
        found = False
        for dg in dis[:50]:
            m = topo.build_impl(dg['spec'])
            bad = property_on_impl(m, topo.observe_impl(m))
            if bad:
                ck.violation(dict(kind='addressing', spec=dg['spec'], observed=bad, disagreement=dg['why']))
                found = True
                break
        if not found:
            ck.violation(dict(kind='broken-tie', detail=dict(broken=ck.broken, disagreements=[(x['why'], x['spec']) for x in dis[:3]]),
                              theorem='Pmn.Props.C17.* / correspondence topo full (tags, queries, listings)'), found_input=False)
