"""C09 — Kirchhoff's current law and end conditions in the current report.

Proof side : Pmn/Props/C09.lean — structure of every junction of every accepted antenna
             (C09_structure), Kirchhoff for full sums (C09_kcl), Kirchhoff for the code as it is on
             the junction class where it holds (C09_kcl_code_partial), the defect as a kernel-checked
             witness (C09_defect_witness), free ends (C09_free_end).
Tie        : conn lists (entry by entry, in order), pulse_iter, and the printed CURRENT DATA block
             for a random *integer* current vector (printed exactly) vs the Lean model
             (`endLine`, `codeTerms`).
Search     : Kirchhoff on the printed junction lines of the real report.
Known      : end-1 junction line with >= 2 attached wires keeps only the last term.
"""
import json, re
import numpy as np
import topo

LEVEL = 'proof'
MODULES = ['C09']


def parse_current_table(txt):
    """-> per object: dict(first=('J',c)|('E',0)|None, rows=[(no, c)], last=...)"""
    blocks = []
    cur = None
    for l in txt.split('\n'):
        if re.match(r'^\S+ NO\.\s+\d+ :', l):
            cur = dict(lines=[])
            blocks.append(cur)
            continue
        if cur is None or l.startswith('PULSE') or l.startswith(' NO.') or not l.strip() or l.startswith('*'):
            continue
        t = l.split()
        if t[0] in ('J', 'E'):
            cur['lines'].append((t[0], complex(float(t[1]), float(t[2]))))
        else:
            cur['lines'].append((int(float(t[0])), complex(float(t[1]), float(t[2]))))
    return blocks


def model_lines(r, I):
    """what the model says the table contains, with the code's term selection"""
    out = []
    for k, o in enumerate(r['objs']):
        lines = []
        for e, key in ((0, 'code0'), (1, 'code1')):
            ln = o[key]
            if e == 1:
                pass
            if ln == 'none':
                v = None
            elif ln == 'E':
                v = ('E', 0j)
            else:
                c = 0j
                for p, s in ln['J']:
                    c = c + s * I[p]
                v = ('J', c)
            if e == 0:
                first = v
            else:
                last = v
        rows = []
        for p in o['pulses']:
            g0, g1 = r['pulses'][p][0], r['pulses'][p][1]
            if g0 == g1:
                rows.append((p + 1, I[p]))
        lines = ([first] if first else []) + rows + ([last] if last else [])
        out.append(lines)
    return out


def kcl_on_report(r, blocks):
    """Kirchhoff on the *printed* junction lines; nodes = registering end + its attached ends
    (model's hits).  returns list of failing nodes: (A, eA, n_attached, residual, residual_if_full_sum)"""
    def jval(k, e):
        ln = blocks[k]['lines']
        if not ln:
            return None
        x = ln[0] if e == 0 else ln[-1]
        return x[1] if x[0] in ('J', 'E') else None
    fails = []
    for A, o in enumerate(r['objs']):
        for eA in (0, 1):
            conn = o['conn%d' % eA]
            # registering end: entries with geobj == ow (attached ends); own entry has ow == A
            att = [c for c in conn if c[0] == c[1] and not (c[1] == A and c[2] == eA and c[0] != A)]
            if o['h%d' % eA] is not None or not att:
                continue
            outA = 1 if eA == 0 else -1
            ja = jval(A, eA)
            if ja is None:
                fails.append((A, eA, len(att), 'no junction line', None))
                continue
            tot = outA * ja
            full = 0j
            ok = True
            for (g, ow, eb, s) in att:
                jb = jval(ow, eb)
                if jb is None:
                    ok = False
                    break
                tot += (1 if eb == 0 else -1) * jb
                full += s * jb       # what the registering end's line would be with the full sum
            if not ok:
                fails.append((A, eA, len(att), 'attached end without junction line', None))
            elif abs(tot) > 1e-9:
                fails.append((A, eA, len(att), tot, outA * full + sum((1 if c[2] == 0 else -1) * jval(c[1], c[2]) for c in att)))
    return fails


def free_ends_ok(r, blocks):
    for k, o in enumerate(r['objs']):
        for e in (0, 1):
            if o['line%d' % e] == 'E':
                ln = blocks[k]['lines']
                x = ln[0] if e == 0 else ln[-1]
                if x[0] != 'E' or x[1] != 0:
                    return 'free end %d of object %d printed as %r' % (e, k, x)
    return None


def evaluate(spec, rng_seed):
    """property on the real report.  returns (violations, known_hits)"""
    m = topo.build_impl(spec)
    obs = topo.observe_impl(m)
    rs = np.random.RandomState(rng_seed)
    N = len(m.pulses)
    I = rs.randint(-9, 10, N) + 1j * rs.randint(-9, 10, N)
    m.current = I.astype(complex)
    blocks = parse_current_table(m.currents_as_mininec())
    return m, obs, I, blocks


def flow_ok(r, obs, blocks, I):
    """third clause: the junction line of an attaching end equals the current of the pulse that sits
    on that wire end (found in the pulse table by position in the object's block, not via end_segs)"""
    for k, o in enumerate(r['objs']):
        own = obs['objs'][k]['pulses']
        for e in (0, 1):
            if o['h%d' % e] is None or not own:
                continue
            other = o['h%d' % e][1]
            # the junction pulse of this end: first / last pulse of the block joining this object and the other
            cand = own[0] if e == 0 else own[-1]
            g = obs['pulses'][cand]
            if {g[0], g[1]} != {k, other} and not (other == k):
                return 'object %d end %d: no junction pulse at the block %s' % (k, e + 1, 'start' if e == 0 else 'end')
            ln = blocks[k]['lines']
            x = ln[0] if e == 0 else ln[-1]
            if x[0] != 'J':
                return 'object %d end %d attaches to object %d but prints %r' % (k, e + 1, other, x[0])
            if abs(x[1] - I[cand]) > 1e-9:
                return ('junction line of object %d end %d prints %r, the pulse on that end (number %d) carries %r'
                        % (k, e + 1, x[1], cand + 1, complex(I[cand])))
    return None


def flow_geometric(m, I, blocks):
    """third clause, from the geometry alone (any object kind: wires, arcs, helices): an end of an object whose own
    pulse block starts / ends with a pulse sitting on that end point is an attaching end; its J line is the current
    of that pulse.  Also: an end without any pulse on it prints E."""
    tol = 2.5e-3 * float(m.min_seglen)
    for k, g in enumerate(m.geo):
        own = list(g.pulses)
        ln = blocks[k]['lines']
        # shape of the block: one row per pulse of the object, framed by one line for each end that is not on the ground plane
        # (the pulse of a grounded end is a row of the block; such an end has no E or J line of its own)
        kinds = ['end' if x[0] in ('E', 'J') else 'row' for x in ln]
        free_ends = [np.array(g.endpoints[e], dtype=float) for e in (0, 1) if not g.is_ground[e]]
        nrow = sum(1 for p in own if not any(np.max(np.abs(np.array(p.point, dtype=float) - ep)) <= tol for ep in free_ends))
        if np.max(np.abs(np.array(g.endpoints[0], dtype=float) - np.array(g.endpoints[1], dtype=float))) <= tol:
            nrow = len(own)             # an object closed on itself: the closing pulse is a row of the block as well
        want = ([] if g.is_ground[0] else ['end']) + ['row'] * nrow + ([] if g.is_ground[1] else ['end'])
        if kinds != want:
            return ('block of object %d (%d pulses away from its free ends, ends on the ground plane: %s) has the lines %s'
                    % (k + 1, nrow, [bool(x) for x in g.is_ground], ' '.join(str(x[0]) for x in ln)))
        for e in (0, 1):
            if g.is_ground[e]:
                continue
            ep = np.array(g.endpoints[e], dtype=float)
            x = ln[0] if e == 0 else ln[-1]
            on_end = [p for p in m.pulses if np.max(np.abs(np.array(p.point, dtype=float) - ep)) <= tol]
            if not on_end:
                if x[0] != 'E':
                    return 'object %d end %d carries no pulse but prints %r' % (k + 1, e + 1, x[0])
                continue
            if not own:
                continue
            cand = own[0] if e == 0 else own[-1]
            if np.max(np.abs(np.array(cand.point, dtype=float) - ep)) > tol:
                continue                   # registering end: the sum over the attached objects is C09_kcl's business
            if x[0] != 'J':
                return 'object %d end %d has the junction pulse %d on it but prints %r' % (k + 1, e + 1, cand.idx + 1, x[0])
            if abs(x[1] - I[cand.idx]) > 1e-9:
                return ('junction line of object %d end %d prints %r, the pulse on that end (number %d) carries %r'
                        % (k + 1, e + 1, x[1], cand.idx + 1, complex(I[cand.idx])))
    return None


def kcl_geometric(m, blocks):
    """Kirchhoff on the printed end lines with the junctions taken from the geometry alone (structures with exactly
    coinciding end points): at a point where k >= 2 object ends meet, the printed end currents, counted as flowing away from
    a first end and into a second end, sum to zero.  Junctions whose earliest object meets them with its *first* end and
    at least two further ends are the known finding (that line keeps only its last term) and are skipped.
    Returns (violation or None, number of known-finding junctions skipped)."""
    ends = []
    for k, g in enumerate(m.geo):
        for e in (0, 1):
            if g.is_ground[e]:
                continue
            ends.append((tuple(float(x) for x in g.endpoints[e]), k, e))
    nodes = {}
    for pt, k, e in ends:
        nodes.setdefault(pt, []).append((k, e))
    known = 0
    for pt, lst in nodes.items():
        if len(lst) < 2 or len(set(k for k, _ in lst)) < len(lst):
            continue
        first = min(lst)
        if first[1] == 0 and len(lst) >= 3:
            known += 1
            continue
        tot = 0j
        for k, e in lst:
            ln = blocks[k]['lines']
            x = ln[0] if e == 0 else ln[-1]
            if x[0] != 'J':
                return 'end %d of object %d lies on a junction of %d ends at %r but prints %r' % (e + 1, k + 1, len(lst), pt, x[0]), known
            tot += (1 if e == 0 else -1) * x[1]
        if abs(tot) > 1e-9:
            return ('the end currents printed at the junction %r (ends %s) sum to %r, Kirchhoff requires 0'
                    % (pt, ', '.join('%d of object %d' % (e + 1, k + 1) for k, e in lst), complex(tot))), known
    return None, known


def curved_flow_cases(seed):
    """closed and open structures of arcs, helices and wires (C12's list): (name, violation or None)"""
    import c12
    from mininec.mininec import Mininec
    out = []
    for j, (name, mk) in enumerate(c12.curved_cases()):
        m = c12.build_curved(name, mk)
        rs = np.random.RandomState(seed + j)
        N = len(m.pulses)
        I = rs.randint(-9, 10, N) + 1j * rs.randint(-9, 10, N)
        m.current = I.astype(complex)
        blocks = parse_current_table(m.currents_as_mininec())
        out.append((name, flow_geometric(m, I, blocks)))
    return out


def shared_ground_cases(seed):
    """several wires standing on one ground point (a vertical and slopers from one stake, a delta on its apex, three wires from
    one point; listed in either order, drawn from or towards the ground): (name, violation or None)"""
    from mininec.mininec import Mininec, Wire, ideal_ground
    r = 0.002

    def W(n, p, q):
        return Wire(n, *[float(x) for x in p], *[float(x) for x in q], r)
    O = (1.0, -2.0, 0.0)
    T1, T2, T3 = (1.0, -2.0, 6.0), (5.0, -2.0, 4.0), (1.0, 2.0, 5.0)
    cases = [('vertical+sloper', [W(5, O, T1), W(5, O, T2)]), ('sloper+vertical', [W(5, O, T2), W(5, O, T1)]),
             ('vertical+sloper-down', [W(5, O, T1), W(5, T2, O)]), ('both-down', [W(5, T1, O), W(5, T2, O)]),
             ('three-from-one-stake', [W(4, O, T1), W(5, T2, O), W(4, O, T3)]),
             ('delta-on-apex', [W(5, O, T2), W(5, O, T3), W(4, T2, T3)]),
             ('delta-on-apex-reordered', [W(4, T3, T2), W(5, T2, O), W(5, O, T3)])]
    out = []
    for j, (name, ws) in enumerate(cases):
        m = Mininec(10.0, ws, media=[ideal_ground])
        rs = np.random.RandomState(seed + 100 + j)
        N = len(m.pulses)
        I = rs.randint(-9, 10, N) + 1j * rs.randint(-9, 10, N)
        m.current = I.astype(complex)
        blocks = parse_current_table(m.currents_as_mininec())
        out.append((name, flow_geometric(m, I, blocks) or kcl_geometric(m, blocks)[0]))
    return out


def scaled_bad(m, I, blocks, sc):
    """the same currents at another level (microampere, picoampere, far below, kiloampere): the report is linear in the
    currents — the table must be the unit-level table times the factor"""
    m.current = I.astype(complex) * sc
    try:
        b2 = parse_current_table(m.currents_as_mininec())
    finally:
        m.current = I.astype(complex)
    ok = True
    for blk in b2:
        ln = []
        for (k, v) in blk['lines']:
            w = v / sc
            wr = complex(round(w.real), round(w.imag))
            if abs(w - wr) > 1e-4:
                ok = False
            ln.append((k, wr))
        blk['lines'] = ln
    if not ok or [bb['lines'] for bb in b2] != [bb['lines'] for bb in blocks]:
        k2 = next((j for j, (x, y) in enumerate(zip(b2, blocks)) if x['lines'] != y['lines']), 0)
        return ('with all currents multiplied by %g the current table is not the same table times %g: block %d prints %r, '
                'at unit level %r' % (sc, sc, k2 + 1, b2[k2]['lines'][:3], blocks[k2]['lines'][:3]))
    return None


def classify(r, blocks, obs=None, I=None):
    bad, known = [], []
    fe = free_ends_ok(r, blocks)
    if fe:
        bad.append(fe)
    if obs is not None:
        fl = flow_ok(r, obs, blocks, I)
        if fl:
            bad.append(fl)
    for (A, eA, natt, res, res_full) in kcl_on_report(r, blocks):
        if eA == 0 and natt >= 2 and res_full is not None and abs(res_full) < 1e-9:
            known.append((A, eA, natt))
        else:
            bad.append('Kirchhoff fails at end %d of object %d (%d attached): residual %r' % (eA + 1, A, natt, res))
    return bad, known


def replay_curved(rp):
    for name, bad in curved_flow_cases(rp['current_seed']) + shared_ground_cases(rp['current_seed']):
        if name == rp['name']:
            print('replay', name, '->', bad or 'property holds')
            return 1 if bad else 0
    print('replay: unknown structure', rp['name'])
    return 1


def replay(rp):
    if rp.get('kind') == 'curved-flow':
        return replay_curved(rp)
    spec = rp.get('spec')
    if not spec:
        print('replay: nothing to execute:', rp.get('kind'))
        return 1
    from common import Driver
    d = Driver()
    try:
        m, obs, I, blocks = evaluate(spec, rp.get('current_seed', 1))
        r = topo.parse_model(d.ask(topo.model_request(spec, obs, m)))
        bad, known = classify(r, blocks, obs, I)
    except Exception as e:
        print('replay: the implementation cannot be observed (%s: %s); judged from the report and the geometry' % (type(e).__name__, e))
        m = topo.build_impl(spec)
        rs = np.random.RandomState(rp.get('current_seed', 1))
        N = len(m.pulses)
        I = rs.randint(-9, 10, N) + 1j * rs.randint(-9, 10, N)
        m.current = I.astype(complex)
        blocks = parse_current_table(m.currents_as_mininec())
        bad, known = [], []
    if not bad:
        fg = flow_geometric(m, I, blocks)
        if not fg and not spec['fuzz']:
            fg = kcl_geometric(m, blocks)[0]
        bad = [fg] if fg else bad
    for sc in (1e-6, 1e-13, 1e-20, 1e3):
        if not bad:
            sb = scaled_bad(m, I, blocks, sc)
            bad = [sb] if sb else bad
    print('replay ->', bad or ('known finding only' if known else 'property holds'))
    return 1 if bad else 0


def run(ck):
    ck.proof_side()
    ck.cov['further_clauses'] = 'shape of every CURRENT DATA block (no end line for an end on the ground plane); seven structures of wires standing on one ground point'
    d = ck.get_driver()
    n = 1200 if ck.tier == 'quick' else 15000
    dis, viol = [], []
    nknown = 0
    for i in range(n):
        spec = topo.gen_structure(ck.rng, max_wires=7 if ck.tier == 'quick' else 10, allow_tags=(i % 3 == 0))
        try:
            topo.build_impl(spec)
        except Exception as e:
            ck.count('impl_rejected')          # the implementation does not accept the structure (e.g. duplicate wires)
            continue
        try:
            m, obs, I, blocks = evaluate(spec, ck.seed * 7919 + i)
        except Exception as e:
            # the structure is accepted but cannot be observed the way the tie needs it (an interface the harness reads
            # has changed): a broken correspondence — the property is still evaluated from the printed report and the
            # geometry alone
            if not any('observation of the implementation failed' in str(b) for b in ck.broken):
                ck.broken.append('observation of the implementation failed: %s: %s' % (type(e).__name__, e))
            ck.count('observation_failed')
            try:
                m = topo.build_impl(spec)
                rs = np.random.RandomState(ck.seed * 7919 + i)
                N = len(m.pulses)
                I = rs.randint(-9, 10, N) + 1j * rs.randint(-9, 10, N)
                m.current = I.astype(complex)
                blocks = parse_current_table(m.currents_as_mininec())
                fg = flow_geometric(m, I, blocks)
                if not fg and not spec['fuzz']:
                    fg = kcl_geometric(m, blocks)[0]
            except Exception as e2:
                fg = None
            if fg:
                viol.append(dict(spec=spec, observed=[fg], current_seed=ck.seed * 7919 + i))
            continue
        r = topo.parse_model(d.ask(topo.model_request(spec, obs, m)))
        ck.case(topo.shape_key(spec, obs), any(len(o['conn0']) + len(o['conn1']) for o in obs['objs']),
                sample=dict(wires=[(w['nseg'], w['p0'], w['p1']) for w in spec['wires']], ground=spec['ground']))
        for k, v in topo.junction_stats(obs).items():
            ck.count(k, v)
        why = None
        if r['status'] != 'ok':
            why = 'model status ' + r['status']
        else:
            for a, b in zip(r['objs'], obs['objs']):
                for f in ('conn0', 'conn1', 'line0', 'line1'):
                    if a[f] != b[f]:
                        why = 'object field ' + f
            if not why:
                ml = model_lines(r, I)
                il = [b['lines'] for b in blocks]
                if ml != il:
                    why = 'CURRENT DATA block'
        if why:
            dis.append(dict(spec=spec, why=why, current_seed=ck.seed * 7919 + i))
            continue
        # the property on the printed report (exact: integer currents print exactly)
        bad, known = classify(r, blocks, obs, I)
        nknown += len(known)
        if not bad:
            fg = flow_geometric(m, I, blocks)
            if not fg and not spec['fuzz']:
                fg = kcl_geometric(m, blocks)[0]
                ck.count('kcl_geometric_cases')
            if fg:
                bad = [fg]
        if not bad and i % 4 == 1:
            sc = [1e-6, 1e-13, 1e-20, 1e3][(i // 4) % 4]
            ck.count('scaled_current_cases')
            sb = scaled_bad(m, I, blocks, sc)
            if sb:
                bad = [sb]
        if bad:
            viol.append(dict(spec=spec, observed=bad, current_seed=ck.seed * 7919 + i))
    # arcs, helices, two-object loops: the third clause from the geometry alone
    cseed = ck.seed * 104729
    for name, bad in curved_flow_cases(cseed):
        ck.case(('curved', name), True)
        ck.count('curved_flow_cases')
        if bad:
            ck.violation(dict(kind='curved-flow', name=name, current_seed=cseed, observed=bad))
    for name, bad in shared_ground_cases(cseed):
        ck.case(('shared-ground', name), True)
        ck.count('shared_ground_cases')
        if bad:
            ck.violation(dict(kind='curved-flow', name=name, current_seed=cseed, observed=bad))
    # the same clause on the wire graphs, independent of the model
    ck.stats['disagreements'] = len(dis)
    ck.stats['known_finding_nodes'] = nknown
    ck.cov['rule'] = ('random wire graphs (as C12), random Gaussian-integer current vector set on the object, CURRENT DATA block '
                      'parsed and compared line by line with the model; Kirchhoff evaluated exactly on the printed lines; '
                      'non-trivial = at least one junction; distinct = distinct topology pattern')
    ck.assumptions += ['integer currents below 1e7 are printed exactly by format_float (C19 tie), so Kirchhoff on the printed text is exact arithmetic']
    if nknown:
        ck.report_known('end1-junction-line-keeps-last-term',
                        'junction line at a first wire end with >= 2 attached wires prints only the last attached current '
                        '(c = instead of c +=, currents_as_mininec): Kirchhoff fails there; seen at %d nodes this run' % nknown)
        if not ck.known_hits:
            viol.append(dict(spec=None, observed=['first-end junction class fails Kirchhoff (not listed as known)']))
    for v in viol[:3]:
        ck.violation(dict(kind='kirchhoff', spec=v['spec'], observed=v['observed'], current_seed=v.get('current_seed')))
    if (dis or ck.broken) and not viol:
        found = False
        for dg in dis[:50]:
            try:
                m, obs, I, blocks = evaluate(dg['spec'], dg['current_seed'])
                r = topo.parse_model(d.ask(topo.model_request(dg['spec'], obs, m)))
                bad, known = classify(r, blocks, obs, I)
            except Exception as e:
                bad = ['report could not be evaluated: %s' % e]
            if bad:
                ck.violation(dict(kind='kirchhoff', spec=dg['spec'], observed=bad, current_seed=dg['current_seed'], disagreement=dg['why']))
                found = True
                break
        if not found:
            ck.violation(dict(kind='broken-tie', detail=dict(broken=ck.broken, disagreements=[(x['why'], x['spec']) for x in dis[:3]]),
                              theorem='Pmn.Props.C09.* / correspondence topo full (conn lists, CURRENT DATA)'), found_input=False)
