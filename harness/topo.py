"""Shared generator and observers for the discrete topology layer (C09, C12, C17)."""
import json, math, warnings
import numpy as np
from common import f2b

warnings.simplefilter('ignore')


def gen_structure(rng, max_wires=7, allow_tags=True, fuzz_p=0.3, ground_p=0.4):
    """random wire graph on a small grid: chains, stars, loops, several components,
    single-segment wires; optional ground; optional tolerance-scale perturbation of end points"""
    ground = rng.random() < ground_p
    nn = rng.randint(2, 6)
    nodes = []
    while len(nodes) < nn:
        z = rng.choice([0.0, 1.0, 2.0, 3.0]) if ground else rng.choice([-1.0, 0.0, 1.0, 2.0])
        p = (rng.choice([0., 1., 2., 3.]), rng.choice([0., 1., 2.]), z)
        if p not in nodes:
            nodes.append(p)
    wires, used = [], set()
    shape = rng.random()
    tries = rng.randint(1, max_wires)
    for i in range(tries):
        if shape < 0.25 and len(wires) >= 1:
            # star: everything touches node 0
            a, b = 0, rng.randrange(1, nn)
            if rng.random() < .5:
                a, b = b, a
        else:
            a, b = rng.sample(range(nn), 2)
        if (a, b) in used or (b, a) in used:
            continue
        if ground and nodes[a][2] == 0 and nodes[b][2] == 0:
            continue
        used.add((a, b))
        wires.append((rng.randint(1, 4), a, b))
    if not wires:
        wires.append((rng.randint(1, 4), 0, 1)) if not (ground and nodes[0][2] == 0 and nodes[1][2] == 0) else wires.append((2, 0, 1))
        if ground and nodes[0][2] == 0 and nodes[1][2] == 0:
            nodes[1] = (nodes[1][0], nodes[1][1], 1.0)
    fuzz = rng.random() < fuzz_p
    # shortest segment decides the tolerance; perturb by 0.2 .. 5 x tol
    seglens = []
    for n, a, b in wires:
        seglens.append(math.dist(nodes[a], nodes[b]) / n)
    tol = min(seglens) * 1e-3
    scale = rng.choice([0.2, 0.5, 0.9, 2.5, 5.0]) if fuzz else 0.0
    # overall size of the structure (millimetre-wave to long-wave dimensions: the joining rule is relative to the
    # shortest segment, not an absolute length) and its distance from the origin (the rule is about distances
    # between ends, not about the size of the coordinates)
    size = rng.choice([1.0, 1.0, 1.0, 1e-4, 3e-3, 250.0, 1e4])
    far = rng.choice([0.0, 0.0, 0.0, 3e2, 1e4, 3e5])
    sh = [far * rng.choice([-1, 1]), far * rng.choice([-1, 0.5]), 0.0 if ground else far * rng.choice([0, 1])]

    def P(x):
        p = list(nodes[x])
        if fuzz and not (ground and nodes[x][2] == 0):
            d = [rng.uniform(-1, 1) for _ in range(3)]
            nrm = math.sqrt(sum(v * v for v in d)) or 1.0
            r = rng.uniform(0.3, 1.0) * scale * tol * 0.5   # two ends perturbed: distance <= scale*tol
            p = [p[k] + d[k] / nrm * r for k in range(3)]
        p = [(p[k] + sh[k]) * size for k in range(3)]
        return tuple(float(v) for v in p)
    tagmode = rng.choice(['auto', 'auto', 'explicit', 'sparse', 'mixed']) if allow_tags else 'auto'
    ntag = len(wires)
    if tagmode == 'explicit':
        tags = list(range(1, ntag + 1)); rng.shuffle(tags)
    elif tagmode == 'sparse':
        tags = rng.sample(range(1, 4 * ntag + 2), ntag)
    elif tagmode == 'mixed':
        tags = [rng.choice([None, t]) for t in rng.sample(range(1, 3 * ntag + 2), ntag)]
    else:
        tags = [None] * ntag
    spec = dict(ground=ground, fuzz=fuzz, scale=scale, tagmode=tagmode, size=size, far=far,
                wires=[dict(nseg=n, p0=P(a), p1=P(b), tag=t) for (n, a, b), t in zip(wires, tags)])
    return spec


def build_impl(spec, f=10.0):
    from mininec.mininec import Mininec, Wire, ideal_ground
    ws = []
    for w in spec['wires']:
        r = 0.001 * spec.get('size', 1.0)
        ws.append(Wire(w['nseg'], *w['p0'], *w['p1'], r, tag=w['tag']) if w['tag'] is not None
                  else Wire(w['nseg'], *w['p0'], *w['p1'], r))
    return Mininec(f, ws, media=[ideal_ground] if spec['ground'] else None)


def pulse_geometry_bad(m):
    """placement of the unknowns: each real half of a pulse is the segment of its object that ends at the
    pulse point, its far end is the other end of that segment; the image half of a grounded pulse is the
    mirror image (at z = 0) of its real half"""
    import numpy as np
    for p in m.pulses:
        pt = np.array(p.point, dtype=float)
        for h in (0, 1):
            sg = p.segs[h]
            # ends are joined within the matching tolerance (1e-3 of the shortest segment)
            tol = 1e-6 * float(sg.seg_len) + 2.5e-3 * float(m.min_seglen)
            fe = np.array(p.ends[h], dtype=float)
            if p.ground[h]:
                other = np.array(p.ends[1 - h], dtype=float)
                if np.max(np.abs(fe - other * np.array([1, 1, -1]))) > tol:
                    return ('pulse %d: the image half of the grounded pulse ends at %s, the mirror image of its real half ends at %s'
                            % (p.idx + 1, [round(float(x), 6) for x in fe], [round(float(x), 6) for x in other * np.array([1, 1, -1])]))
                continue
            a, b = np.array(sg.p1, dtype=float), np.array(sg.p2, dtype=float)
            ok = ((np.max(np.abs(a - pt)) <= tol and np.max(np.abs(b - fe)) <= tol) or
                  (np.max(np.abs(b - pt)) <= tol and np.max(np.abs(a - fe)) <= tol))
            if not ok:
                return ('pulse %d at %s: half %d is given the segment %s - %s of object %d, which does not end at the pulse '
                        '(far end recorded as %s)' % (p.idx + 1, [round(float(x), 6) for x in pt], h + 1,
                                                      [round(float(x), 6) for x in a], [round(float(x), 6) for x in b], sg.geobj.n + 1,
                                                      [round(float(x), 6) for x in fe]))
            if sg.geobj is not p.geo[h] or not any(sg is x for x in p.geo[h].segments):
                return 'pulse %d: half %d refers to a segment that is not a segment of its object' % (p.idx + 1, h + 1)
    return None


def observe_impl(m):
    """what the implementation built, in plain data"""
    objs = []
    for w in m.geo:
        o = dict(tag=w.tag, nseg=w.n_segments, g0=bool(w.is_ground[0]), g1=bool(w.is_ground[1]),
                 # the ends of the object as its segment table has them (what the conductor really is), not the
                 # implementation's bookkeeping array used for the matching (that one is upstream data of the model tie)
                 p0=[float(x) for x in w.segments[0].p1], p1=[float(x) for x in w.segments[-1].p2],
                 es0=w.end_segs[0], es1=w.end_segs[1], pulses=[p.idx for p in w.pulses])
        for e in (0, 1):
            o['conn%d' % e] = [[g.n, ow.n, ix, int(s)] for (g, ow, ix, s) in w.conn[e].list]
            if w.is_ground[e]:
                o['line%d' % e] = 'none'
            elif not w.conn[e]:
                o['line%d' % e] = 'E'
            else:
                o['line%d' % e] = {'J': [[p, int(s)] for (p, s) in w.conn[e].pulse_iter()]}
        objs.append(o)
    pulses = []
    for p in m.pulses:
        gnd = -1
        if p.ground[0]:
            gnd = 0
        if p.ground[1]:
            gnd = 1
        pulses.append([p.geo[0].n, p.geo[1].n, int(p.dir_sgn[0]), int(p.dir_sgn[1]), gnd, p.geobj.n])
    # the shortest segment of the structure, from the segment table itself (the joining rule of C12 refers to it);
    # what the implementation *takes* as the shortest segment is kept separately (upstream datum of the model tie)
    true_min = min(math.dist([float(x) for x in sg.p1], [float(x) for x in sg.p2]) for g in m.geo for sg in g.segments)
    return dict(objs=objs, pulses=pulses, min_seglen=true_min, min_seglen_impl=float(m.min_seglen), ground=bool(m.media))


def model_request(spec, obs, m, queries=()):
    """request line for the driver: objects in *creation* order with the tags the user gave,
    end points as the implementation holds them after ground snapping (upstream data)"""
    # map creation order -> implementation object (by identity of the Wire list order)
    toks = ['topo full', '1' if spec['ground'] else '0', f2b(obs.get('min_seglen_impl', obs['min_seglen'])), len(spec['wires'])]
    created = getattr(m.geo, 'geo')
    # m.geo.geo is sorted by tag; recover creation order through the original tag/had_tag info
    by_tag = {w.tag: w for w in created}
    auto = [w for w in created if not w.had_tag]
    # automatic tags were handed out in creation order, so sorting them by tag restores that order
    auto.sort(key=lambda w: w.tag)
    ai = 0
    for ws in spec['wires']:
        if ws['tag'] is not None:
            w = by_tag[ws['tag']]
            t = ws['tag']
        else:
            w = auto[ai]; ai += 1
            t = -1
        ep = w.endpoints
        toks += [t, w.n_segments] + [f2b(x) for x in ep[0]] + [f2b(x) for x in ep[1]]
    if queries:
        toks += ['Q', len(queries)]
        for q in queries:
            toks += list(q)
    return ' '.join(str(t) for t in toks)


def parse_model(ans):
    return json.loads(ans)


def run_case(d, spec, queries=()):
    """build on both sides; returns (m, obs, model) — m None if the implementation rejected"""
    try:
        m = build_impl(spec)
    except Exception as e:
        return None, dict(exc='%s: %s' % (type(e).__name__, e)), None
    obs = observe_impl(m)
    r = parse_model(d.ask(model_request(spec, obs, m, queries)))
    return m, obs, r


def shape_key(spec, obs):
    """what makes a topology case distinct: segment counts, hits pattern, ground, tags"""
    return (spec['ground'], spec['tagmode'], spec['fuzz'],
            tuple((o['nseg'], o['g0'], o['g1'], len(o['conn0']), len(o['conn1'])) for o in obs['objs']))


def junction_stats(obs):
    st = {}
    for o in obs['objs']:
        for e in (0, 1):
            n = len(o['conn%d' % e])
            if n >= 2:
                st['node_deg%d' % min(n + 1, 6)] = st.get('node_deg%d' % min(n + 1, 6), 0) + 1
    return st
