"""C04 — the near field is the field of the solved currents and merges into the far field.

Proof side : Pmn/Props/C04.lean on the model Pmn/Model/Near.lean — both fields are linear in the
             pulse currents and proportional to sqrt(pwr / P); the H-field index arithmetic is the
             central-difference curl of the total vector potential; each half of a pulse enters with
             its own direction, sign and segment (describing a pulse from the other side negates its
             contribution, a half described in the opposite sense leaves it unchanged), so the field
             of a given current distribution does not depend on the description; constants.
Tie        : `Mininec.e_field / h_field` vs the executed Lean model (same pulse table, same currents)
             at 1e-9 of the field magnitude.
Search     : the property on the implementation: E and H against an independent evaluation (numpy
             quadrature of the Hertzian-dipole fields of every half-segment current and of the
             charges the continuity equation puts on every segment, mirror images over ideal ground)
             within 1 %; at 500..2000 wavelengths against `far_field` (same power and distance),
             E/H = 376.7 ohm, transversality.
"""
import math, random, re
import numpy as np
import antgen, farlib
from common import f2b, b2f

LEVEL = 'proof'
MODULES = ['C04']
ETA = 376.730313668


# ---------------------------------------------------------------- independent physics

def indep_fields(m, pts, ground, nq=24):
    k = 2 * np.pi / m.wavelen
    xs, ws = np.polynomial.legendre.leggauss(nq)
    xs = (xs + 1) / 2
    ws = ws / 2
    cur, chg = [], []
    for p in m.pulses:
        I = m.current[p.idx]
        for h in (0, 1):
            if p.ground[h]:
                continue
            a = np.array(p.point, float)
            e = np.array(p.ends[h], float)
            u = np.array(p.segs[h].dirvec, float) * float(p.dir_sgn[h])
            s = 1.0 if np.dot(u, e - a) > 0 else -1.0
            cur.append((a, (a + e) / 2, u, I))
            chg.append((a, e, s * I / np.linalg.norm(e - a)))
    if ground:
        mir = np.array([1, 1, -1.0])
        cur += [(a * mir, b * mir, u * np.array([-1, -1, 1.0]), I) for a, b, u, I in cur]
        chg += [(a * mir, b * mir, -q) for a, b, q in chg]
    E = np.zeros((len(pts), 3), complex)
    H = np.zeros((len(pts), 3), complex)
    for n, pt in enumerate(pts):
        pt = np.array(pt, float)
        for a, b, u, I in cur:
            L = np.linalg.norm(b - a)
            q = a[None, :] + (b - a)[None, :] * xs[:, None]
            R = pt[None, :] - q
            r = np.linalg.norm(R, axis=1)
            G = np.exp(-1j * k * r) / (4 * np.pi * r)
            E[n] += -1j * k * ETA * I * u * np.sum(G * ws) * L
            H[n] += I * L * np.sum((ws * (1j * k + 1 / r) * G)[:, None] * np.cross(u[None, :], R / r[:, None]), axis=0)
        for a, b, ql in chg:
            L = np.linalg.norm(b - a)
            q = a[None, :] + (b - a)[None, :] * xs[:, None]
            R = pt[None, :] - q
            r = np.linalg.norm(R, axis=1)
            G = np.exp(-1j * k * r) / (4 * np.pi * r)
            grad = -((1j * k + 1 / r) * G)[:, None] * R / r[:, None]
            E[n] += -(ETA / (1j * k)) * ql * L * np.sum(ws[:, None] * grad, axis=0)
    return E, H


def min_distance(m, pt, ground):
    pt = np.array(pt, float)
    best = 1e300
    for p in m.pulses:
        for h in (0, 1):
            if p.ground[h]:
                continue
            a, b = np.array(p.point, float), np.array(p.ends[h], float)
            t = np.clip(np.dot(pt - a, b - a) / np.dot(b - a, b - a), 0, 1)
            best = min(best, float(np.linalg.norm(pt - (a + t * (b - a)))))
    return best


def gen_points(rng, m, ant, n):
    pts0 = np.array([p.point for p in m.pulses])
    c = pts0.mean(axis=0)
    ext = float(np.max(np.linalg.norm(pts0 - c, axis=1)))
    out = []
    tries = 0
    # "one segment length": the longest segment of the structure (wires of one antenna differ by up to 1.4)
    segmax = max(float(sg.seg_len) for g in m.geo for sg in g.segments)
    while len(out) < n and tries < 200:
        tries += 1
        d = np.array([rng.gauss(0, 1) for _ in range(3)])
        d /= np.linalg.norm(d)
        o = c + d * (ext * rng.uniform(0.1, 1.6) + segmax * rng.uniform(1, 4))
        if ant['ground']:
            o[2] = abs(o[2]) + 0.2 * segmax
            if tries % 4 == 1:
                o[2] = 0.0            # a field point on the ground plane itself (field maps at ground level)
        elif tries % 7 == 2:
            o[rng.randrange(3)] = 0.0  # exactly on a coordinate plane
        if min_distance(m, o, ant['ground']) >= segmax * 1.05:
            out.append([float(x) for x in o])
    return out


def big_grid_clause(m, ant, rng):
    """a field map of a few thousand points in one request (more than 65536 / (6 pulses) points, and not a round
    number): every row of the map is the field a request for that point alone gives — chunked or blocked evaluation,
    tables keyed by position and index arithmetic show only at such sizes"""
    N = len(m.pulses)
    npts = int(max(1500, 1.35 * 65536 / (6 * max(N, 1)))) + 7
    nx = 43
    ny = npts // nx + 1
    segmax = max(float(sg.seg_len) for g in m.geo for sg in g.segments)
    allp = np.array([list(sg.p1) for g in m.geo for sg in g.segments] + [list(sg.p2) for g in m.geo for sg in g.segments], dtype=float)
    c = allp.mean(axis=0)
    dd = segmax / 2
    z0 = float(allp[:, 2].max()) + 3 * segmax
    start = [float(c[0] - nx / 2 * dd), float(c[1] - ny / 2 * dd), z0]
    m.compute_near_field(start, [dd, dd, 0.0], [nx, ny, 1])
    E, H = np.array(m.e_field), np.array(m.h_field)
    coords = np.array(m.near_field_coord).T
    if len(E) != nx * ny:
        return 'a field map of %d x %d points has %d rows' % (nx, ny, len(E))
    K = nx * ny
    for idx in sorted(set([0, 1, K // 3, K // 2, (2 * K) // 3, K - nx, K - 3, K - 2, K - 1] + [rng.randrange(K) for _ in range(4)])):
        pt = [float(x) for x in coords[idx]]
        e, h = impl_near(m, pt)
        sc = max(float(np.max(np.abs(e))), 1e-300)
        if np.max(np.abs(E[idx].ravel() - e)) > 1e-9 * sc or np.max(np.abs(H[idx].ravel() - h)) > 1e-9 * max(float(np.max(np.abs(h))), 1e-300):
            return ('row %d of a field map of %d points (point %s) has |E| = %.6g; asked for alone the point has |E| = %.6g'
                    % (idx + 1, K, [round(x, 4) for x in pt], float(np.max(np.abs(E[idx]))), float(np.max(np.abs(e)))))
    return None


def spelling_clause(m):
    """the same request written in other ways — whole numbers given as Python integers or as integer arrays, lists, tuples or
    arrays of floats — names the same field points and must give the same field (1e-12): nothing may depend on the
    number type of the request"""
    allp = np.array([list(sg.p1) for g in m.geo for sg in g.segments] + [list(sg.p2) for g in m.geo for sg in g.segments], dtype=float)
    segmax = max(float(sg.seg_len) for g in m.geo for sg in g.segments)
    c = allp.mean(axis=0)
    start = [int(math.floor(c[0])) + 1, int(math.floor(c[1])) - 1, int(math.ceil(float(allp[:, 2].max()) + 3 * segmax)) + 1]
    inc, n = [1, 2, 1], [2, 1, 2]
    ref = None
    for name, mk in (('floats', lambda v: [float(x) for x in v]), ('python integers', lambda v: [int(x) for x in v]),
                     ('integer arrays', lambda v: np.array(v, dtype=int)), ('float arrays', lambda v: np.array(v, dtype=float)),
                     ('tuples of integers', lambda v: tuple(int(x) for x in v))):
        m.compute_near_field(mk(start), mk(inc), [int(x) for x in n] if name != 'integer arrays' else np.array(n, dtype=int))
        E, H = np.array(m.e_field, dtype=complex), np.array(m.h_field, dtype=complex)
        if ref is None:
            ref = (E, H)
            continue
        for lab, a, b in (('E', ref[0], E), ('H', ref[1], H)):
            sc = max(float(np.max(np.abs(a))), 1e-300)
            if a.shape != b.shape or np.max(np.abs(a - b)) > 1e-12 * sc:
                return ('near-field request start=%r increment=%r counts=%r written as %s: %s differs by %.3g (relative) from the same '
                        'request written with floats' % (start, inc, n, name, lab, (np.max(np.abs(a - b)) / sc) if a.shape == b.shape else float('nan')))
    return None


def impl_near(m, pt, pwr=None):
    kw = {} if pwr is None else dict(pwr=pwr)
    m.compute_near_field(pt, [1.0, 1.0, 1.0], [1, 1, 1], **kw)
    return np.array(m.e_field).ravel(), np.array(m.h_field).ravel()


def build(ant, src_seed):
    m = antgen.build(ant)
    antgen.pick_sources(random.Random(src_seed), m)
    m.compute()
    return m


def property_on_impl(ant, src_seed, pts, pwr):
    m = build(ant, src_seed)
    fe = 1.0 if pwr is None else math.sqrt(pwr / m.power)
    E, H = indep_fields(m, pts, ant['ground'])
    for pt, e0, h0 in zip(pts, E, H):
        e, h = impl_near(m, pt, pwr)
        de = np.max(np.abs(e - e0 * fe)) / np.max(np.abs(e0 * fe))
        dh = np.max(np.abs(h - h0 * fe)) / np.max(np.abs(h0 * fe))
        if de > 0.01:
            return 'E at %s differs by %.3g (relative) from the field of the solved currents and charges' % ([round(x, 4) for x in pt], de)
        if dh > 0.01:
            return 'H at %s differs by %.3g (relative) from the field of the solved currents' % ([round(x, 4) for x in pt], dh)
    return None


def property_far(ant, src_seed, th, ph, nlam, pwr):
    m = build(ant, src_seed)
    pts0 = np.array([p.point for p in m.pulses])
    c = pts0.mean(axis=0)
    c[2] = 0.0 if ant['ground'] else c[2]
    r = nlam * m.wavelen
    tt, pp = math.radians(th), math.radians(ph)
    rh = np.array([math.sin(tt) * math.cos(pp), math.sin(tt) * math.sin(pp), math.cos(tt)])
    thh = np.array([math.cos(tt) * math.cos(pp), math.cos(tt) * math.sin(pp), -math.sin(tt)])
    phh = np.array([-math.sin(pp), math.cos(pp), 0.0])
    # the far field is referred to the coordinate origin: observe from there
    o = rh * r
    e, h = impl_near(m, [float(x) for x in o], pwr)
    ff = farlib.impl_far(m, [th], [ph], pwr=pwr, dist=r)[(th, ph)]
    et, ep = abs(np.dot(e, thh)), abs(np.dot(e, phh))
    ft, fp = abs(ff['e_theta']), abs(ff['e_phi'])
    big = max(ft, fp)
    if big == 0:
        return None
    # the reported far field adds one term per half pulse, the near field integrates along the segments: per pulse the two differ by
    # at most (k Δ)²/24 (theorem C10_exact_integral_partial) — 0.5 % at λ/18, but a two-sided taper can end in a segment of a
    # quarter wavelength
    dmax = max(float(sg.seg_len) for g in m.geo for sg in g.segments)
    tol = 0.02 + (2 * math.pi * dmax / m.wavelen) ** 2 / 24
    if abs(et - ft) > tol * big or abs(ep - fp) > tol * big:
        return 'at %g wavelengths (theta=%g, phi=%g) |E_theta|, |E_phi| = %.5g, %.5g but the far field reports %.5g, %.5g' % (nlam, th, ph, et, ep, ft, fp)
    en, hn = np.linalg.norm(e), np.linalg.norm(h)
    # radial parts are measured against the pattern maximum at this distance, as the other tolerances of the far field are: the
    # staggered pulse / charge model leaves a radial E of the order (k Δ)²/12 of the field *strength of the structure* that does
    # not decay faster than 1/r, and in a direction of weak radiation that is more than 2 % of the local field
    ths = list(range(5, 90, 10)) if ant['ground'] else list(range(5, 180, 10))
    scan = farlib.impl_far(m, [float(x) for x in ths], [ph, ph + 90.0], pwr=pwr, dist=r)
    ref = max([big] + [max(abs(v['e_theta']), abs(v['e_phi'])) for v in scan.values()])
    if abs(np.dot(e, rh)) > 0.02 * ref or abs(np.dot(h, rh)) > 0.02 * ref / 376.7:
        return ('field at %g wavelengths is not transverse (radial parts %.3g of E, %.3g of H, of the pattern maximum %.3g / %.3g)'
                % (nlam, abs(np.dot(e, rh)) / en, abs(np.dot(h, rh)) / hn, abs(np.dot(e, rh)) / ref, abs(np.dot(h, rh)) * 376.7 / ref))
    if abs(en / hn - 376.7) > 0.01 * 376.7:
        return 'E/H = %.5g ohm at %g wavelengths' % (en / hn, nlam)
    return None


# ---------------------------------------------------------------- model tie

def model_fields(d, m, pts, ground, pwr):
    from mininec.mininec import legendre_cache
    import filllib
    fe = 1.0 if pwr is None else math.sqrt(pwr / m.power)
    s0 = .001 * m.wavelen
    t = ['near fields', f2b(m.w), f2b(m.wavelen), 1 if ground else 0, f2b(s0), f2b(m.m), f2b(fe)]
    req = filllib.request(m, [])
    # filllib.request: ['fill entries', spec, w, wavelen, hg, tables..., npulses, pulses..., npairs]
    t += req[5:-1]
    for c in m.current:
        t += [f2b(c.real), f2b(c.imag)]
    t.append(len(pts))
    for p in pts:
        t += [f2b(x) for x in p]
    v = [b2f(x) for x in d.ask(*t).split()]
    out = []
    for k in range(0, len(v), 12):
        e = np.array([complex(v[k], v[k + 1]), complex(v[k + 2], v[k + 3]), complex(v[k + 4], v[k + 5])])
        h = np.array([complex(v[k + 6], v[k + 7]), complex(v[k + 8], v[k + 9]), complex(v[k + 10], v[k + 11])])
        out.append((e, h))
    return out


def replay_big(rp):
    bad = big_grid_clause(build(rp['ant'], rp['src_seed']), rp['ant'], random.Random(rp['src_seed']))
    print('replay ->', bad or 'property holds')
    return 1 if bad else 0


def replay(rp):
    if rp.get('kind') == 'big-grid':
        return replay_big(rp)
    if rp.get('kind') == 'spelling':
        bad = spelling_clause(build(rp['ant'], rp['src_seed']))
        print('replay ->', bad or 'property holds')
        return 1 if bad else 0
    k = rp.get('kind')
    if k == 'near':
        bad = property_on_impl(rp['ant'], rp['src_seed'], rp['pts'], rp.get('pwr'))
    elif k == 'far':
        bad = property_far(rp['ant'], rp['src_seed'], rp['theta'], rp['phi'], rp['nlam'], rp.get('pwr'))
    else:
        print('replay: nothing to execute:', k)
        return 1
    print('replay ->', bad or 'property holds')
    return 1 if bad else 0


def curved_on_ground():
    """arcs standing on an ideal ground plane (arcs lie in the x-z plane, angle a -> (R cos a, 0, R sin a)): half loops with both
    ends on the plane, drawn either way, first and not first object; a mast carrying a quarter arc that comes down to the plane"""
    f = 10.0
    lam = antgen.C / f
    R = 0.08 * lam
    r = 0.005
    seg = math.pi * R / 8

    def A(n, a1, a2):
        return dict(kind='arc', nseg=n, radius=R, a1=a1, a2=a2, r=r)

    def W(n, p0, p1):
        return dict(kind='wire', nseg=n, p0=[float(x) for x in p0], p1=[float(x) for x in p1], r=r)
    cases = [('half-loop', [A(8, 0, 180)]), ('half-loop-backwards', [A(8, 180, 0)]),
             ('mast+half-loop', [W(4, (3 * R, 0, 0), (3 * R, 0, 1.5 * R)), A(8, 0, 180)]),
             ('mast+quarter-arc', [W(4, (0, 0, 0), (0, 0, R)), A(5, 90, 0)]),
             ('quarter-arc+mast', [A(5, 0, 90), W(4, (0, 0, R), (0, 0, 0))])]
    # arcs touching the plane with an *inner* segment end (no ground connection there): a 270 degree arc and a full circle
    # standing on the plane
    up = [0.0, 0.0, R]
    cases += [('arc-270-standing', [dict(A(9, -180, 90), translate=up)]), ('circle-standing', [dict(A(12, 0, 360), translate=up)]),
              ('circle-standing-beside-mast', [W(4, (3 * R, 0, 0), (3 * R, 0, 1.5 * R)), dict(A(12, 90, 450), translate=up)])]
    return [dict(f=f, ground=True, objs=o, family='ground-' + nm, lam=lam, seg=seg, fresh=True) for nm, o in cases]


def run(ck):
    ck.proof_side()
    ck.cov['further_clauses'] = 'curved antennas of the shared generator (every kind) and five arcs standing on an ideal ground plane (half loops either way, first and not first object, mast + quarter arc)'
    d = ck.get_driver()
    rng = ck.rng
    n = 30 if ck.tier == 'quick' else 400
    dis, viol = [], []
    worst = 0.0
    cg = curved_on_ground()
    for i in range(n + len(cg)):
        ant = cg[i - n] if i >= n else antgen.gen_curved(rng, antgen.CURVED_KINDS[(i // 6) % 5]) if i % 6 == 5 else \
            antgen.gen_antenna(rng, max_pulses=14 if ck.tier == 'quick' else 40)
        ss = rng.randrange(10 ** 9)
        m = build(ant, ss)
        if antgen.cond(m) > 1e5:
            ck.count('skipped_cond')
            continue
        pts = gen_points(rng, m, ant, 2)
        if not pts:
            continue
        pwr = rng.choice([None, None, 100.0, 0.37])
        junction = any(p.geo[0] is not p.geo[1] for p in m.pulses)
        reversed_j = any((np.array(p.dir_sgn) < 0).any() for p in m.pulses)
        ck.case((ant['family'], ant['ground'], pwr is None, junction, reversed_j, i), True,
                sample=dict(family=ant['family'], ground=ant['ground'], pwr=pwr, points=pts))
        ck.count('ground' if ant['ground'] else 'free')
        ck.count('with_junction_pulse' if junction else 'no_junction')
        if reversed_j:
            ck.count('with_reversed_junction')
        if any(p.ground.any() for p in m.pulses):
            ck.count('with_grounded_pulse')
        # tie
        mod = model_fields(d, m, pts, ant['ground'], pwr)
        for pt, (me, mh) in zip(pts, mod):
            e, h = impl_near(m, pt, pwr)
            de = np.max(np.abs(e - me)) / max(np.max(np.abs(e)), 1e-300)
            dh = np.max(np.abs(h - mh)) / max(np.max(np.abs(h)), 1e-300)
            worst = max(worst, de, dh)
            if de > 1e-9 or dh > 1e-9:
                dis.append(dict(ant=ant, src_seed=ss, pts=[pt], pwr=pwr, why='model vs implementation: E off by %.3g, H off by %.3g' % (de, dh)))
        bad = property_on_impl(ant, ss, pts, pwr)
        if not bad and (i == 1 or i % 60 == 31):
            ck.count('big_grid_cases')
            bad = big_grid_clause(build(ant, ss), ant, random.Random(ss))
            if bad:
                viol.append(dict(kind='big-grid', ant=ant, src_seed=ss, observed=bad))
                bad = None
        if not bad and i % 4 == 2:
            ck.count('spelling_cases')
            sb = spelling_clause(build(ant, ss))
            if sb:
                viol.append(dict(kind='spelling', ant=ant, src_seed=ss, observed=sb))
        if bad:
            viol.append(dict(kind='near', ant=ant, src_seed=ss, pts=pts, pwr=pwr, observed=bad))
    for i in range(8 if ck.tier == 'quick' else 100):
        ant = antgen.gen_antenna(rng, max_pulses=14)
        ss = rng.randrange(10 ** 9)
        th = rng.uniform(5, 85) if ant['ground'] else rng.uniform(5, 175)
        ph = rng.uniform(0, 360)
        nlam = rng.choice([500, 1000, 2000])
        pwr = rng.choice([None, 100.0])
        ck.case(('far', ant['family'], ant['ground'], nlam, i), True)
        bad = property_far(ant, ss, th, ph, nlam, pwr)
        if bad:
            viol.append(dict(kind='far', ant=ant, src_seed=ss, theta=th, phi=ph, nlam=nlam, pwr=pwr, observed=bad))
    ck.stats['disagreements'] = len(dis)
    ck.stats['worst_model_vs_impl'] = worst
    ck.cov['rule'] = ('antennas of the shared generator (straight, bent, branched, different radii and segment lengths at junctions, wires '
                      'joined end 1 to end 1 / end 2 to end 2, wires grounded at either end; free space and ideal ground), two random '
                      'observation points per antenna at least 1.05 segment lengths from every conductor, default power and two power '
                      'levels; 8/100 far-distance cases at 500-2000 wavelengths (the generator places antennas up to one wavelength off the origin the far field refers to: at 60 wavelengths that alone is 1.7 % in amplitude and 1 degree in direction) in random directions')
    ck.assumptions += ['the independent evaluation uses 24-point Gauss quadrature of the free-space Green function per half segment / segment '
                       'and eta = 376.73 ohm (the implementation uses m = 4.77783352 lambda, i.e. eta = 377.24: 0.14 % of the 1 % budget)',
                       'numpy complex exp / sqrt differ from the Lean Float model in the last bits (tie tolerance 1e-9)']
    seen = set()
    for v in viol:
        k = re.sub(r'[0-9.e+-]+', '#', v['observed'])[:40]
        if k not in seen:
            seen.add(k)
            ck.violation(v)
    if (dis or ck.broken) and not viol:
        ck.violation(dict(kind='broken-tie', detail=dict(broken=ck.broken, disagreements=[x['why'] for x in dis[:3]]),
                          theorem='Pmn.Props.C04.* / correspondence near fields'), found_input=False)
