"""Shared machinery of all checks: building and auditing the Lean side, talking to the model
driver, evidence, known findings, violation reporting."""
import os, sys, re, json, struct, subprocess, time, hashlib, random, io, contextlib

HERE = os.path.dirname(os.path.abspath(__file__))
ROOT = os.path.dirname(HERE)
LEAN = os.path.join(ROOT, 'lean')
REPO = os.environ.get('PMN_REPO', '/repo')
OUT = os.environ.get('PMN_OUT', ROOT)      # evidence/ and replays/ go here (set only for experiments on scratch copies)
DRIVER = os.path.join(LEAN, '.lake', 'build', 'bin', 'pmn-driver')
ALLOWED_AXIOMS = {'propext', 'Classical.choice', 'Quot.sound'}
FORBIDDEN = re.compile(r'\b(sorry|admit|native_decide|bv_decide|implemented_by|unsafe)\b'
                       r'|^\s*axiom\s|maxHeartbeats\s+0\b', re.M)

if REPO not in sys.path:
    sys.path.insert(0, REPO)

os.environ.setdefault('OMP_NUM_THREADS', '1')
os.environ.setdefault('OPENBLAS_NUM_THREADS', '1')

# --------------------------------------------------------------------------- floats

def f2b(x):
    return str(struct.unpack('<Q', struct.pack('<d', float(x)))[0])


def b2f(s):
    return struct.unpack('<d', struct.pack('<Q', int(s)))[0]


def hexs(s):
    return s.encode('utf-8').hex() if s else '-'


def unhexs(s):
    return '' if s == '-' else bytes.fromhex(s).decode('utf-8')

# --------------------------------------------------------------------------- lean side


def strip_comments(text):
    """remove /- … -/ (nested) and -- comments and string literals of a Lean source"""
    out, i, depth, n = [], 0, 0, len(text)
    while i < n:
        if text.startswith('/-', i):
            depth += 1; i += 2; continue
        if depth and text.startswith('-/', i):
            depth -= 1; i += 2; continue
        if depth:
            if text[i] == '\n':
                out.append('\n')
            i += 1; continue
        if text.startswith('--', i):
            while i < n and text[i] != '\n':
                i += 1
            continue
        if text[i] == '"':
            i += 1
            while i < n and text[i] != '"':
                i += 2 if text[i] == '\\' else 1
            i += 1
            out.append('""')
            continue
        out.append(text[i]); i += 1
    return ''.join(out)


def lean_files():
    res = []
    for base, dirs, files in os.walk(LEAN):
        if '.lake' in base:
            continue
        for f in files:
            if f.endswith('.lean'):
                res.append(os.path.join(base, f))
    return sorted(res)


def token_scan():
    """forbidden tokens outside comments/strings in every Lean source of the project"""
    hits = []
    for p in lean_files():
        t = strip_comments(open(p).read())
        for m in FORBIDDEN.finditer(t):
            line = t.count('\n', 0, m.start()) + 1
            hits.append('%s:%d:%s' % (os.path.relpath(p, LEAN), line, m.group(0).strip()))
    return hits


def run(cmd, cwd=None, timeout=3600):
    p = subprocess.run(cmd, cwd=cwd, stdout=subprocess.PIPE, stderr=subprocess.STDOUT,
                       text=True, timeout=timeout)
    return p.returncode, p.stdout


def regenerate_constants():
    import extract_constants
    consts, missing, changed = extract_constants.main()
    return consts, missing, changed


def lake_build(targets):
    rc, out = run(['lake', 'build'] + list(targets), cwd=LEAN)
    return rc == 0, out


def theorem_names(prop_module):
    """names of the property theorems (Cxx_… / CF_…) declared in Pmn/Props/<module>.lean"""
    p = os.path.join(LEAN, 'Pmn', 'Props', prop_module + '.lean')
    if not os.path.exists(p):
        return []
    t = strip_comments(open(p).read())
    return re.findall(r'^\s*theorem\s+((?:C\d\d|CF)_\w+)', t, re.M)


def audit(prop_modules):
    """#print axioms on every property theorem of the given modules.
    returns (list of (fullname, axioms or None), raw output)"""
    lines = []
    names = []
    for mod in prop_modules:
        lines.append('import Pmn.Props.%s' % mod)
    for mod in prop_modules:
        for th in theorem_names(mod):
            full = 'Pmn.Props.%s.%s' % (mod, th)
            names.append(full)
            lines.append('#print axioms %s' % full)
    d = os.path.join(LEAN, '.lake', 'audit')
    os.makedirs(d, exist_ok=True)
    path = os.path.join(d, 'Audit_%s.lean' % '_'.join(prop_modules))
    with open(path, 'w') as f:
        f.write('\n'.join(lines) + '\n')
    rc, out = run(['lake', 'env', 'lean', path], cwd=LEAN)
    res = {}
    flat = re.sub(r'\s+', ' ', out)
    for full in names:
        m = re.search(r"'%s' depends on axioms: \[([^\]]*)\]" % re.escape(full), flat)
        if m:
            res[full] = [a.strip() for a in m.group(1).split(',') if a.strip()]
        elif re.search(r"'%s' does not depend on any axioms" % re.escape(full), flat):
            res[full] = []
        else:
            res[full] = None
    return [(n, res[n]) for n in names], out


class Driver:
    """persistent model driver (compiled Lean), one request line → one answer line"""

    def __init__(self):
        self.p = subprocess.Popen([DRIVER], stdin=subprocess.PIPE, stdout=subprocess.PIPE,
                                  text=True, bufsize=1)
        self.n = 0

    def ask(self, *tokens):
        line = ' '.join(str(t) for t in tokens)
        self.p.stdin.write(line + '\n')
        self.p.stdin.flush()
        self.n += 1
        ans = self.p.stdout.readline()
        if not ans:
            raise RuntimeError('model driver died on: ' + line[:200])
        return ans.rstrip('\n')

    def ask_many(self, lines):
        """pipeline a batch of request lines (faster than ask() in a loop)"""
        lines = list(lines)
        if not lines:
            return []
        # write in a thread-free way: chunks small enough not to fill the pipes
        out = []
        CH = 200
        for i in range(0, len(lines), CH):
            chunk = lines[i:i + CH]
            self.p.stdin.write('\n'.join(chunk) + '\n')
            self.p.stdin.flush()
            for _ in chunk:
                ans = self.p.stdout.readline()
                if not ans:
                    raise RuntimeError('model driver died')
                out.append(ans.rstrip('\n'))
        self.n += len(lines)
        return out

    def close(self):
        try:
            self.p.stdin.close()
            self.p.wait(timeout=5)
        except Exception:
            self.p.kill()

# --------------------------------------------------------------------------- implementation


def run_main(argv, want_mininec=False):
    """Run the real `main` in-process.  Returns dict(kind, rc, out, err, exc, m).
    kind: 'report' (rc None/0), 'diag' (rc 23), 'usage' (SystemExit), 'crash' (exception)"""
    from mininec import mininec as M
    out, err = io.StringIO(), io.StringIO()
    res = dict(kind=None, rc=None, out='', err='', exc=None, m=None)
    try:
        with contextlib.redirect_stdout(out), contextlib.redirect_stderr(err):
            r = M.main(list(argv), f_err=err, return_mininec=want_mininec)
        if want_mininec and not isinstance(r, int):
            res['m'] = r
            res['kind'] = 'report'
        else:
            res['rc'] = r
            res['kind'] = 'report' if not r else 'diag'
    except SystemExit as e:
        res['kind'] = 'usage'
        res['rc'] = e.code
    except BaseException as e:  # noqa
        if isinstance(e, KeyboardInterrupt) or type(e).__name__ == '_Timeout':
            raise
        res['kind'] = 'crash'
        res['exc'] = '%s: %s' % (type(e).__name__, str(e)[:200])
    res['out'] = out.getvalue()
    res['err'] = err.getvalue()
    return res

# --------------------------------------------------------------------------- check context


class Timeout(Exception):
    pass


class Check:
    def __init__(self, pid, tier, seed, level, modules, replay=None):
        self.pid, self.tier, self.seed, self.level = pid, tier, seed, level
        self.modules = modules           # Props modules whose theorems are this property's obligations
        self.t0 = time.time()
        self.rng = random.Random(seed * 1000003 + int(pid[1:]))
        self.violations = []             # (replay_path, text, found_input)
        self.known_hits = []
        self.broken = []                 # broken obligations / correspondences (not yet violations)
        self.cov = dict(evaluations=0, distinct_nontrivial=0, rule='', samples=[],
                        obligations=0, discharged=0, checker_cmd='', trusted_base=[],
                        explanation='')
        self.assumptions = []
        self.distinct = set()
        self.stats = {}
        self.known = load_known()
        self.driver = None
        self.proof_ok = False
        import cover
        self.cover_on = cover.start(REPO)

    # -- proof side ---------------------------------------------------------
    def proof_side(self, extra_targets=()):
        consts, missing, changed = regenerate_constants()
        self.stats['constants_missing'] = missing
        self.stats['constants_changed'] = changed
        targets = ['Pmn.Props.%s' % m for m in self.modules] + ['pmn-driver'] + list(extra_targets)
        ok, out = lake_build(targets)
        self.cov['checker_cmd'] = ('cd lean && lake build %s && lake env lean .lake/audit/Audit_%s.lean'
                                   % (' '.join(targets), '_'.join(self.modules)))
        names = []
        for m in self.modules:
            names += ['Pmn.Props.%s.%s' % (m, t) for t in theorem_names(m)]
        self.cov['obligations'] = len(names) + 1   # + forbidden-token scan
        discharged = 0
        hits = token_scan()
        if hits:
            self.broken.append(dict(kind='forbidden-token', detail=hits[:10]))
        else:
            discharged += 1
        if missing:
            self.broken.append(dict(kind='constant-not-located', detail=missing))
        if not ok:
            errs = [l for l in out.split('\n') if 'error' in l][:20]
            self.broken.append(dict(kind='lake-build-failed', detail=errs))
            self.stats['build_log_tail'] = out[-3000:]
        else:
            res, raw = audit(self.modules)
            bad = []
            for full, ax in res:
                if ax is None or not set(ax) <= ALLOWED_AXIOMS:
                    bad.append((full, ax))
                else:
                    discharged += 1
            if bad:
                self.broken.append(dict(kind='axiom-audit', detail=bad[:10]))
            self.stats['axioms'] = {n: a for n, a in res}
            if self.tier == 'thorough':
                mods = ['Pmn.Props.%s' % m for m in self.modules]
                rc, o = run(['lake', 'env', 'leanchecker'] + mods, cwd=LEAN, timeout=1800)
                self.stats['leanchecker_rc'] = rc
                self.cov['obligations'] += 1
                if rc == 0:
                    discharged += 1
                else:
                    self.broken.append(dict(kind='leanchecker', detail=o[-500:]))
        self.cov['discharged'] = discharged
        self.cov['trusted_base'] = [
            'Lean 4.33.0 kernel' + (' + leanchecker re-check' if self.tier == 'thorough' else ''),
            'Mathlib v4.33.0 as compiled on this image',
            'axioms allowed: propext, Classical.choice, Quot.sound (audited by #print axioms on every property theorem)',
            'hand-written model tied to /repo by harness correspondence (samples, this run) and by constants regenerated from the AST',
        ]
        self.proof_ok = not self.broken
        return self.proof_ok

    def get_driver(self):
        if self.driver is None:
            self.driver = Driver()
        return self.driver

    # -- coverage bookkeeping ----------------------------------------------
    def case(self, key=None, nontrivial=True, sample=None):
        self.cov['evaluations'] += 1
        if nontrivial and key is not None:
            self.distinct.add(key if isinstance(key, (str, int, tuple)) else json.dumps(key, sort_keys=True, default=str))
        if sample is not None and len(self.cov['samples']) < 5:
            self.cov['samples'].append(sample)

    def count(self, name, k=1):
        self.stats[name] = self.stats.get(name, 0) + k

    def elapsed(self):
        return time.time() - self.t0

    # -- violations -------------------------------------------------------
    def known_match(self, finding_id):
        for k in self.known.get('findings', []):
            if k['property'] == self.pid and k['id'] == finding_id:
                return k
        return None

    def report_known(self, finding_id, what=None):
        k = self.known_match(finding_id)
        if k is None:
            return False
        if finding_id not in self.known_hits:
            self.known_hits.append(finding_id)
            print('KNOWN-FINDING: property=%s %s' % (self.pid, what or k['what']))
        return True

    def violation(self, replay, found_input=True):
        replay = dict(replay)
        replay['property'] = self.pid
        replay['seed'] = self.seed
        replay['tier'] = self.tier
        replay['failing_input_found'] = bool(found_input)
        blob = json.dumps(replay, sort_keys=True, default=str)
        h = hashlib.sha1(blob.encode()).hexdigest()[:10]
        os.makedirs(os.path.join(OUT, 'replays'), exist_ok=True)
        path = os.path.join('replays', '%s-%s.json' % (self.pid, h))
        with open(os.path.join(OUT, path), 'w') as f:
            json.dump(replay, f, indent=1, sort_keys=True, default=str)
        self.violations.append(path)
        tail = '' if found_input else ' no-failing-input-found'
        print('VIOLATION property=%s replay=%s%s' % (self.pid, path, tail))

    # -- finish -------------------------------------------------------------
    def finish(self):
        if self.driver:
            self.driver.close()
        self.cov['distinct_nontrivial'] = len(self.distinct)
        try:
            import antgen
            if antgen.WARM['built']:
                self.stats['objects_built'] = antgen.WARM['built']
                self.stats['objects_with_history'] = antgen.WARM['warmed']
                self.stats['objects_scaled_through_the_api'] = antgen.SCALED['built']
        except Exception:
            pass
        if getattr(self, 'cover_on', False):
            import cover
            cover.stop()
            fl = list(cover.ANCHORS.get(self.pid, []))
            if self.pid in cover.MAIN_PROPS:
                fl.append('main')
            sm = cover.summary(fl)
            self.stats['repo_coverage'] = sm
            self.stats['repo_coverage_note'] = ('lines of the anchored /repo functions executed by this run (in-process only; '
                                               'subprocess runs are not traced); informational, never a verdict')
        cov = dict(self.cov)
        cov['stats'] = self.stats
        cov['known_findings_hit'] = self.known_hits
        cov['broken'] = self.broken
        ev = dict(property_id=self.pid, tier=self.tier, seed=self.seed, level=self.level,
                  coverage=cov, assumptions=self.assumptions,
                  wall_s=round(time.time() - self.t0, 2), violations=len(self.violations))
        os.makedirs(os.path.join(OUT, 'evidence'), exist_ok=True)
        with open(os.path.join(OUT, 'evidence', self.pid + '.json'), 'w') as f:
            json.dump(ev, f, indent=1, default=str)
        print('%s %s tier=%s seed=%d evaluations=%d distinct=%d obligations=%d/%d violations=%d known=%d wall=%.1fs'
              % (self.pid, 'OK' if not self.violations else 'FAIL', self.tier, self.seed,
                 cov['evaluations'], cov['distinct_nontrivial'], cov['discharged'],
                 cov['obligations'], len(self.violations), len(self.known_hits), ev['wall_s']))
        return 1 if self.violations else 0


def load_known():
    p = os.path.join(ROOT, 'known_findings.json')
    if os.path.exists(p):
        return json.load(open(p))
    return dict(findings=[], fixed=[])


def close(a, b, rtol=1e-9, atol=0.0):
    import math
    if isinstance(a, complex) or isinstance(b, complex):
        return abs(a - b) <= atol + rtol * max(abs(a), abs(b))
    if math.isnan(a) or math.isnan(b):
        return math.isnan(a) and math.isnan(b)
    if math.isinf(a) or math.isinf(b):
        return a == b
    return abs(a - b) <= atol + rtol * max(abs(a), abs(b))
