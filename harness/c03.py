"""C03 — image theory: ideal ground = free space + mirrored antenna.

Proof side : Pmn/Props/C03.lean — on the fill model the image pass of every entry is the direct entry
             of the image pulse (exact for the implemented potential integral); a mirror-symmetric
             system has a mirror-symmetric solution; with S^T Z_f S = diag(W) Z_g and S^T v_f = W v_g
             the ground currents solve the ground system iff their symmetric extension solves the
             free-space system; half impedance on grounded ends; twice the gain, 10 log10 2.
Tie        : on the implementation, S (symmetric extension: each half segment above ground and its
             image carry the image current) is computed from the two real pulse tables and
             S^T Z_f S = diag(W) Z_g (W = 2 elevated, 1 grounded), S^T rhs_f = W rhs_g are compared.
Search     : the property itself: antenna over ideal ground vs antenna plus mirrored antenna in free
             space (grounded ends continued, image sources in mirror sense, 2V on a grounded feed):
             half-segment currents, feed impedances (half on grounded ends), gain + 3.0103 dB.
"""
import math, random, re
import numpy as np
import antgen, c06, farlib

LEVEL = 'proof'
MODULES = ['C03']


def curved_ground_cases(rng):
    """arcs over ideal ground whose ends touch the ground at an angle that is only numerically zero (R sin 180 degrees =
    1.2e-16 R): half loop with both ends on the ground, quarter circles grounded at either end, with a wire from the top"""
    out = []
    for k in range(6):
        f = rng.choice([7.0, 14.0, 28.0])
        lam = antgen.C / f
        n = rng.randint(6, 10)
        kind = ['half', 'half', 'quarter1', 'quarter2', 'quarter1-wire', 'half'][k]
        R = lam / rng.uniform(8, 14)
        seg = 2 * R * math.sin(math.pi / (2 * n))
        rad = seg / 40
        if kind == 'half':
            objs = [dict(kind='arc', nseg=n, radius=R, a1=0.0, a2=180.0, r=rad)]
        elif kind == 'quarter1':
            objs = [dict(kind='arc', nseg=n // 2 + 2, radius=R, a1=180.0, a2=90.0, r=rad)]
        elif kind == 'quarter2':
            objs = [dict(kind='arc', nseg=n // 2 + 2, radius=R, a1=90.0, a2=180.0, r=rad)]
        else:
            objs = [dict(kind='arc', nseg=n // 2 + 2, radius=R, a1=180.0, a2=90.0, r=rad),
                    dict(kind='wire', nseg=3, p0=[0.0, 0.0, R], p1=[2.5 * seg, seg, R + seg], r=rad)]
        out.append(dict(f=f, ground=True, objs=objs, family='arc-on-ground-' + kind, lam=lam, seg=seg))
    return out


def mirror_ant(ant):
    if 'objs' in ant:
        os_ = [dict(o) for o in ant['objs']]
        for o in ant['objs']:
            if o['kind'] == 'arc':
                os_.append(dict(o, a1=-o['a1'], a2=-o['a2']))          # the arc lies in the x-z plane: z -> -z is angle -> -angle
            elif o['kind'] == 'wire':
                os_.append(dict(o, p0=[o['p0'][0], o['p0'][1], -o['p0'][2]], p1=[o['p1'][0], o['p1'][1], -o['p1'][2]]))
            else:
                raise ValueError('no mirror image for ' + o['kind'])
        return dict(ant, ground=False, objs=os_)
    ws = [dict(w) for w in ant['wires']]
    for w in ant['wires']:
        ws.append(dict(w, p0=[w['p0'][0], w['p0'][1], -w['p0'][2]], p1=[w['p1'][0], w['p1'][1], -w['p1'][2]]))
    return dict(ant, ground=False, wires=ws)


def extension(mg, mf, q):
    """S with I_f = S I_g: every half segment above ground carries the ground-model current, its mirror
    image the image current (horizontal components reversed)"""
    rg, Bg = c06.half_table(mg, q)
    rf, Bf = c06.half_table(mf, q)
    tgt = np.zeros((len(rf), len(mg.pulses)))
    for kk, r in rf.items():
        if kk in rg:
            tgt[r] = Bg[rg[kk]]
        else:
            n, f = kk
            mk = ((n[0], n[1], -n[2]), (f[0], f[1], -f[2]))
            if mk not in rg:
                return None, 'half segment of the mirrored structure without a counterpart above ground'
            # flow "node -> far" along the mirrored half is the mirrored direction; the image current is minus that
            tgt[r] = -Bg[rg[mk]]
    S, res, rk, _ = np.linalg.lstsq(Bf, tgt, rcond=None)
    if np.max(np.abs(Bf @ S - tgt)) > 1e-9 or np.max(np.abs(S - np.round(S))) > 1e-9:
        return None, 'the pulses of the mirrored structure cannot carry the symmetric extension'
    return np.round(S), None


def gen_sources(rng, mg):
    k = rng.randint(1, min(3, len(mg.pulses)))
    out = []
    for p in antgen.source_pulses(rng, mg, k):
        mag = 10 ** rng.uniform(-1, 1.5)
        ph = rng.uniform(-math.pi, math.pi) if rng.random() < 0.7 else 0.0
        out.append((p, complex(mag * math.cos(ph), mag * math.sin(ph))))
    return out


def property_on_impl(ant, srcs):
    from mininec.mininec import Excitation
    q = ant['seg'] * 1e-6
    mg, mf = antgen.build(ant), antgen.build(mirror_ant(ant))
    S, why = extension(mg, mf, q)
    if S is None:
        return why, None
    W = np.array([1.0 if p.ground.any() else 2.0 for p in mg.pulses])
    # sources of the free-space pair: v_f with S^T v_f = W v_g, mirror symmetric; one source per pulse that S touches
    vg = np.zeros(len(mg.pulses), complex)
    for p, v in srcs:
        mg.register_source(Excitation(v), p)
        vg[p] += v
    fsrc = {}
    for p, v in srcs:
        col = S[:, p]
        rows = np.nonzero(col)[0]
        if len(rows) > 2 or any(np.count_nonzero(S[r]) != 1 for r in rows):
            return None, None          # junction pulse regrouped by the mirrored description: no single feed point
        vv = v * (2.0 if mg.pulses[p].ground.any() else 1.0)
        for r in rows:
            fsrc[r] = fsrc.get(r, 0) + vv * col[r]
    for r, v in fsrc.items():
        mf.register_source(Excitation(v), int(r))
    mg.compute(); mf.compute()
    cn = max(antgen.cond(mg), antgen.cond(mf))
    if cn > 1e5:
        return None, None
    tol = 5e-4 if cn <= 1e3 else 5e-7 * cn
    # tie
    F = S.T @ mf.Z @ S
    sc = np.max(np.abs(mg.Z))
    dz = float(np.max(np.abs(F - W[:, None] * mg.Z)) / sc)
    dr = float(np.max(np.abs(S.T @ mf.rhs - W * mg.rhs)) / max(np.max(np.abs(mg.rhs)), 1e-300))
    tie = (dz, dr)
    # currents on the half segments above ground
    rg, Bg = c06.half_table(mg, q)
    rf, Bf = c06.half_table(mf, q)
    hg, hf = Bg @ mg.current, Bf @ mf.current
    scI = np.max(np.abs(hg))
    dI = max(abs(hg[rg[kk]] - hf[rf[kk]]) for kk in rg) / scI
    if dI > tol:
        return 'currents above ground differ by %.3g (relative) between ideal ground and antenna plus image' % dI, tie
    # feed impedances
    for (p, v), sg in zip(srcs, mg.sources):
        rows = np.nonzero(S[:, p])[0]
        sf = [s for s in mf.sources if s.idx == int(rows[0])][0]
        zf = sf.impedance / (2.0 if mg.pulses[p].ground.any() else 1.0)
        if len([x for x in srcs if x[0] == p]) > 1:
            continue
        if abs(sg.impedance - zf) > tol * abs(zf):
            return 'feed impedance %r over ground, %r expected from antenna plus image%s' % (
                sg.impedance, zf, ' (half of the through-going feed)' if mg.pulses[p].ground.any() else ''), tie
    ths, phs = [15.0, 50.0, 85.0], [20.0, 230.0]
    fg, ff = farlib.impl_far(mg, ths, phs), farlib.impl_far(mf, ths, phs)
    mx = max(v['db'][2] for v in fg.values())
    for kk in fg:
        a, b = fg[kk]['db'][2], ff[kk]['db'][2] + 3.0103
        if a > mx - 30 and abs(a - b) > 0.01 + 20 * tol * (cn > 1e3):
            return 'gain over ground %.4f dBi at %r, free-space pair %.4f + 3.0103' % (a, kk, b - 3.0103), tie
    return None, tie


def replay(rp):
    if 'ant' not in rp:
        print('replay: nothing to execute:', rp.get('kind'))
        return 1
    bad, tie = property_on_impl(rp['ant'], [(p, complex(*v)) for p, v in rp['srcs']])
    print('replay ->', bad or 'property holds')
    return 1 if bad else 0


def run(ck):
    ck.proof_side()
    rng = ck.rng
    n = 60 if ck.tier == 'quick' else 800
    dis, viol = [], []
    worst = [0.0, 0.0]
    fams = ['dipole', 'vee', 'ell', 'tee', 'star', 'monopole', 'monopole_top', 'array', 'monopole_taper', 'monopole_taper', 'stub_top', 'stub_top', 'close_grounded', 'close_grounded']
    for i in range(n):
        ant = antgen.gen_antenna(rng, families=fams, max_pulses=12 if ck.tier == 'quick' else 30, ground=True)
        if not ant['ground'] or not c06.in_domain(ant):
            ck.count('skipped_not_ground')
            continue
        mg = antgen.build(ant)
        srcs = gen_sources(rng, mg)
        try:
            bad, tie = property_on_impl(ant, srcs)
        except Exception as e:
            bad, tie = 'evaluation raised %s: %s' % (type(e).__name__, e), None
        if bad is None and tie is None:
            ck.count('skipped_cond_or_regrouped_feed')
            continue
        grounded_feed = any(mg.pulses[p].ground.any() for p, _ in srcs)
        ck.case((ant['family'], len(ant['wires']), len(srcs), grounded_feed, i), True,
                sample=dict(family=ant['family'], sources=len(srcs), grounded_feed=grounded_feed))
        ck.count('grounded_structure' if any(p.ground.any() for p in mg.pulses) else 'elevated_structure')
        if grounded_feed:
            ck.count('grounded_feed')
        if tie:
            worst = [max(worst[0], tie[0]), max(worst[1], tie[1])]
            if tie[0] > 5e-5 or tie[1] > 1e-12:
                dis.append(dict(ant=ant, srcs=[[p, [v.real, v.imag]] for p, v in srcs],
                                why='S^T Z_f S = W Z_g off by %.3g, right-hand side off by %.3g' % tie))
        if bad:
            viol.append(dict(kind='image', ant=ant, srcs=[[p, [v.real, v.imag]] for p, v in srcs], observed=bad))
    for ant in curved_ground_cases(rng):
        mg = antgen.build(ant)
        srcs = gen_sources(rng, mg)
        try:
            bad, tie = property_on_impl(ant, srcs)
        except Exception as e:
            bad, tie = 'evaluation raised %s: %s' % (type(e).__name__, e), None
        if bad is None and tie is None:
            ck.count('skipped_cond_or_regrouped_feed')
            continue
        ck.case((ant['family'], len(srcs)), True)
        ck.count('arc_on_ground_cases')
        if tie and (tie[0] > 5e-5 or tie[1] > 1e-12):
            dis.append(dict(ant=ant, srcs=[[p, [v.real, v.imag]] for p, v in srcs],
                            why='S^T Z_f S = W Z_g off by %.3g, right-hand side off by %.3g' % tie))
        if bad:
            viol.append(dict(kind='image', ant=ant, srcs=[[p, [v.real, v.imag]] for p, v in srcs], observed=bad))
    ck.stats['disagreements'] = len(dis)
    ck.stats['worst_fold_residual'] = worst
    ck.cov['rule'] = ('antennas of the shared generator over ideal ground: elevated dipoles, vees, ells, tees, stars, two-element arrays '
                      '(horizontal, sloping, bent, branched), vertical and tilted monopoles, top-loaded monopoles (grounded at either '
                      'end); 1-3 sources with complex voltages on random pulses incl. grounded ends; mirrored structure built by '
                      'appending the mirrored wires (grounded ends thereby continued into their image)')
    ck.assumptions += ['half segments are matched by position at 1e-6 segment lengths',
                       'fold tolerance 5e-5 of the matrix scale: for tilted grounded wires the exact-kernel / Gauss-order decisions of the '
                       'through-going pulse differ between the two descriptions (observed <= 4e-6)']
    seen = set()
    for v in viol:
        k = re.sub(r'[0-9.e+-]+', '#', v['observed'])[:40]
        if k not in seen:
            seen.add(k)
            ck.violation(v)
    if (dis or ck.broken) and not viol:
        ck.violation(dict(kind='broken-tie', detail=dict(broken=ck.broken, disagreements=[x['why'] for x in dis[:3]]),
                          theorem='Pmn.Props.C03.C03_reduce hypotheses / correspondence S^T Z_f S = W Z_g'), found_input=False)
