"""Which lines of /repo did this check's inputs actually execute?

The theorems are about the model; the model is tied to the code only through the inputs the
correspondence runs see.  This module measures that: it records (with `sys.monitoring`, Python 3.12,
each location disabled after its first hit so the cost is negligible) every line of
`<REPO>/mininec/*.py` executed while a check runs and reports, per function, executed / executable
lines and the lines never reached.  The result goes into the evidence file (`stats.repo_coverage`);
it never decides a verdict — it tells what the generators did not reach.
"""
import os, sys, ast

TOOL = 3            # sys.monitoring tool id (0..5; 3 is free for applications)
_hits = {}          # filename -> set(lines)
_active = False
_prefix = None


def _on_line(code, line):
    fn = code.co_filename
    if fn.startswith(_prefix):
        s = _hits.get(fn)
        if s is None:
            s = _hits[fn] = set()
        s.add(line)
    return sys.monitoring.DISABLE


def start(repo):
    global _active, _prefix
    if _active or not hasattr(sys, 'monitoring') or os.environ.get('PMN_NOCOVER'):
        return False
    _prefix = os.path.join(os.path.realpath(repo), 'mininec') + os.sep
    try:
        sys.monitoring.use_tool_id(TOOL, 'pmn-cover')
    except ValueError:
        return False
    sys.monitoring.register_callback(TOOL, sys.monitoring.events.LINE, _on_line)
    sys.monitoring.set_events(TOOL, sys.monitoring.events.LINE)
    _active = True
    return True


def stop():
    global _active
    if not _active:
        return
    sys.monitoring.set_events(TOOL, 0)
    sys.monitoring.register_callback(TOOL, sys.monitoring.events.LINE, None)
    sys.monitoring.free_tool_id(TOOL)
    _active = False


def _executable_lines(path):
    """executable lines per function (qualified name) from the compiled code objects"""
    src = open(path).read()
    top = compile(src, path, 'exec')
    res = {}

    def walk(code, qual):
        lines = set(l for (_, _, l) in code.co_lines() if l is not None)
        # the def line itself and docstring-only lines are not interesting
        lines.discard(code.co_firstlineno)
        sub = [c for c in code.co_consts if hasattr(c, 'co_lines')]
        for c in sub:
            if c.co_name.startswith('<'):        # comprehensions, lambdas: count with the parent
                lines |= set(l for (_, _, l) in c.co_lines() if l is not None)
            else:
                walk(c, (qual + '.' if qual else '') + c.co_name)
        if qual:
            res[qual] = (code.co_firstlineno, lines)
    walk(top, '')
    return res


def report(functions=None, max_missed=12):
    """-> dict name -> {hit, total, missed:[lines…]} for every function with at least one executed line
    (or every function named in `functions`, a list of substrings of qualified names)."""
    out = {}
    for fn, hit in _hits.items():
        try:
            ex = _executable_lines(fn)
        except Exception:
            continue
        base = os.path.basename(fn)
        for q, (first, lines) in ex.items():
            h = lines & hit
            want = functions is not None and any(f in q for f in functions)
            if not h and not want:
                continue
            if functions is not None and not want:
                continue
            missed = sorted(lines - hit)
            out['%s:%s' % (base, q)] = dict(hit=len(h), total=len(lines), missed=missed[:max_missed] + (['…'] if len(missed) > max_missed else []))
    return out


def summary(functions=None):
    r = report(functions)
    tot = sum(v['total'] for v in r.values())
    hit = sum(v['hit'] for v in r.values())
    return dict(functions=len(r), lines_hit=hit, lines_total=tot, per_function=r)


# functions each property is anchored in (substrings of qualified names; line numbers in properties.jsonl are
# those of the pinned commit and have moved with the fix commits, names have not)
ANCHORS = {
    'C01': ['Excitation.power', 'Mininec.compute', 'compute_far_field', 'compute_impedance_matrix_loads', 'Medium.impedance'],
    'C02': ['compute_impedance_matrix', 'vector_potential', 'scalar_potential', 'Mininec.psi', 'integral_i2_i3', 'fast_quad',
            'Pulse.__init__', 'Pulse.endseg', 'Pulse.dvecs', 'compute_connections'],
    'C03': ['image_iter', 'Mininec.compute_impedance_matrix', 'compute_connections', 'compute_rhs', 'compute_far_field', 'compute_ground'],
    'C04': ['nf_helper', 'compute_near_field', 'psi_near_field_56'],
    'C05': ['Rotation_Matrix', '.rotate', '.scale', '.translate', 'Mininec.f', 'Mininec.compute_impedance_matrix',
            'scalar_potential', 'vector_potential', 'is_non_vertical_grounded'],
    'C06': ['_add_conn', 'compute_connections', 'Connected_Geobj', 'compute_tags', 'nf_helper'],
    'C07': ['compute_rhs', 'compute_currents', 'Excitation.__init__', 'Excitation.current', 'Excitation.power', 'Excitation.impedance', 'Excitation.as_mininec', 'Excitation.register', 'register_source'],
    'C08': ['compute_impedance_matrix_loads', 'Laplace_Load', 'Series_RLC_Load', 'Trap_Load', 'Skin_Effect_Load.impedance',
            'Insulation_Load.impedance', 'Geobj.r', 'register_load', 'fix_distributed_loads', 'Distributed_Load'],
    'C09': ['currents_as_mininec', 'pulse_iter', '_add_conn', 'Connected_Geobj'],
    'C10': ['compute_far_field', 'Far_Field_Pattern', 'Angle'],
    'C11': ['compute_far_field', 'Medium.impedance', 'Medium.set_next', 'check_ground'],
    'C12': ['compute_connections', 'compute_ground', 'Pulse_Container.add', 'Connected_Geobj'],
    'C13': ['compute_equal_segments', 'taper1', 'taper2', 'compute_taper', 'compute_segments', 'Arc.', 'Helix.', 'Curve.',
            'Segment.__init__', 'Rotation_Matrix', '.rotate', '.scale', '.translate'],
    'C14': ['Mininec.f', 'Skin_Effect_Load.impedance', 'Insulation_Load.impedance', 'Pulse_Container', 'Mininec.compute'],
    'C15': ['as_cmdline'],
    'C16': ['compute_near_field', 'Angle', 'near_field_iter'],
    'C17': ['compute_tags', 'register_source', 'register_load', 'Pulse_Container.add', '_Load.add_pulse', 'Distributed_Load.add_pulse'],
    'C18': ['as_basic_input', 'n_emulated_wires'],
    'C19': ['format_float', 'as_mininec'],
    'C20': ['Medium.__init__', 'Medium.set_next', 'check_ground', 'Arc.__init__', 'Helix.__init__', 'Wire.__init__',
            'taper', 'parse_floatlist'],
}
# `main` is one 1700-line function; it is reported for the properties whose quantifier is the argument list
MAIN_PROPS = ('C13', 'C15', 'C17', 'C20', 'C05')
