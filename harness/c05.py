"""C05 — rigid-motion and electromagnetic-scaling invariance.

Proof side : Pmn/Props/C05.lean — every entry of the matrix (direct fill and the implemented fill with
             its shortcuts) is invariant under translation (any in free space, horizontal over ground)
             for any potential functional, and under rotation (any orthogonal map in free space, any
             rotation about the vertical axis over ground); the potential integral depends on its
             vector arguments through lengths only; equal systems have equal solutions.
Tie        : `Mininec.Z` of *moved* antennas vs the Lean fill model (as in C02), so the model is
             validated on rotated / shifted / scaled geometry, not only on axis-aligned one.
Search     : the property on the implementation: moved / scaled antenna vs original (currents, feed
             impedances with the condition-number rule, pattern moved rigidly), options vs coordinates.
Partial    : the (s, f/s) scaling clause and the pattern clause have no theorem.
"""
import math, random
import numpy as np
import antgen, filllib, farlib

LEVEL = 'proof'
MODULES = ['C05', 'C05b']


def rotmat(rx, ry, rz):
    a, b, c = (math.radians(x) for x in (rx, ry, rz))
    Rx = np.array([[1, 0, 0], [0, math.cos(a), -math.sin(a)], [0, math.sin(a), math.cos(a)]])
    Ry = np.array([[math.cos(b), 0, math.sin(b)], [0, 1, 0], [-math.sin(b), 0, math.cos(b)]])
    Rz = np.array([[math.cos(c), -math.sin(c), 0], [math.sin(c), math.cos(c), 0], [0, 0, 1]])
    return Rz @ Ry @ Rx


def moved(ant, R, t, s=1.0):
    a = dict(ant)
    a['wires'] = [dict(w, p0=list(s * (R @ np.array(w['p0']) + t)), p1=list(s * (R @ np.array(w['p1']) + t)), r=w['r'] * s) for w in ant['wires']]
    for w in a['wires']:
        # taper limits are lengths: "all dimensions are multiplied by s"
        for k in ('tmax', 'tmin'):
            if w.get(k) is not None:
                w[k] = w[k] * s
    a['f'] = ant['f'] / s
    a['lam'] = ant['lam'] * s
    a['seg'] = ant['seg'] * s
    return a


def solve(ant, src_seed):
    m = antgen.build(ant)
    antgen.pick_sources(random.Random(src_seed), m)
    m.compute()
    return m


def gen_motion(rng, ground):
    if ground:
        R = rotmat(0, 0, rng.uniform(-180, 180))
        t = np.array([rng.uniform(-30, 30), rng.uniform(-30, 30), 0.0])
    else:
        R = rotmat(rng.uniform(-180, 180), rng.uniform(-180, 180), rng.uniform(-180, 180))
        t = np.array([rng.uniform(-100, 100) for _ in range(3)])
    s = rng.choice([1.0, 1.0, 10 ** rng.uniform(-2, 2)])
    return R, t, s


def scaling_tie(ant, src_seed, R, t, s):
    """hypotheses and conclusion of C05_scale on the implementation: the scaled antenna has lengths, radii
    and small-radius limit times s, wave number and exact-kernel constant divided by s, Z and rhs divided by s"""
    m0 = solve(ant, src_seed)
    m1 = solve(moved(ant, R, t, s), src_seed)
    if len(m0.pulses) != len(m1.pulses):
        return None
    for name, a, b, tol in (('segment lengths', m1.pulses.seg_len, m0.pulses.seg_len * s, 1e-9),
                            ('radii', m1.pulses.radius, m0.pulses.radius * s, 1e-9),
                            ('exact-kernel constants', m1.pulses.i6 * s, m0.pulses.i6, 1e-9),
                            ('wave number', np.array([m1.w * s]), np.array([m0.w]), 1e-12),
                            ('small-radius limit', np.array([m1.srm]), np.array([m0.srm * s]), 1e-12),
                            ('right-hand side', m1.rhs * s, m0.rhs, 1e-9),
                            ('matrix', m1.Z * s, m0.Z, 2e-5)):
        sc = float(np.max(np.abs(b))) or 1.0
        dv = float(np.max(np.abs(np.array(a) - np.array(b)))) / sc
        if dv > tol:
            return '%s of the scaled antenna off by %.3g (relative)' % (name, dv)
    return None


def property_on_impl(ant, src_seed, R, t, s):
    m0 = solve(ant, src_seed)
    cn = antgen.cond(m0)
    if cn > 1e5:
        return None
    tol = 5e-4 if cn <= 1e3 else 5e-7 * cn
    m1 = solve(moved(ant, R, t, s), src_seed)
    if len(m0.pulses) != len(m1.pulses):
        return 'moved antenna has %d pulses, original %d' % (len(m1.pulses), len(m0.pulses))
    sc = np.max(np.abs(m0.current))
    if np.max(np.abs(m1.current - m0.current)) > tol * sc:
        return 'currents change by %.3g (relative) under the motion / scaling' % (np.max(np.abs(m1.current - m0.current)) / sc)
    for a, b in zip(m0.sources, m1.sources):
        if abs(a.impedance - b.impedance) > tol * abs(a.impedance):
            return 'feed impedance %r becomes %r' % (a.impedance, b.impedance)
    # the gain pattern moves rigidly with the antenna
    dirs = [(30.0, 20.0), (70.0, 200.0), (110.0, 310.0)] if not ant['ground'] else [(30.0, 20.0), (70.0, 200.0)]
    g0, g1 = [], []
    for th, ph in dirs:
        tt, pp = math.radians(th), math.radians(ph)
        r0 = np.array([math.sin(tt) * math.cos(pp), math.sin(tt) * math.sin(pp), math.cos(tt)])
        r1 = R @ r0
        th1 = math.degrees(math.acos(max(-1, min(1, r1[2]))))
        ph1 = math.degrees(math.atan2(r1[1], r1[0]))
        a = farlib.impl_far(m0, [th], [ph])[(th, ph)]['db'][2]
        b = farlib.impl_far(m1, [th1], [ph1])[(th1, ph1)]['db'][2]
        g0.append(a); g1.append(b)
    mx = max(g0)
    for a, b in zip(g0, g1):
        if a > mx - 30 and abs(a - b) > 0.01 + 20 * tol:
            return 'gain %r dB in a direction becomes %r dB in the moved direction' % (a, b)
    return None


def options_vs_coords(rng):
    """the same motion through --geo-rotate / --geo-translate / --geo-scale and written into the coordinates"""
    from common import run_main
    rot = [rng.choice([0, 30, 90, rng.uniform(-180, 180)]) for _ in range(3)]
    tr = [rng.uniform(-5, 5) for _ in range(3)]
    # the scale factor given at once, as several --geo-scale options (they multiply), or per object and then for everything
    how = rng.choice(['one', 'one', 'two', 'three', 'per-tag+whole'])
    if how == 'one':
        facs = [(rng.choice([1.0, 2.0, 0.5]), None)]
    elif how == 'two':
        facs = [(rng.choice([2.0, 0.5, 4.0]), None), (rng.choice([5.0, 0.25, 1.5]), None)]
    elif how == 'three':
        facs = [(2.0, None), (0.5, None), (rng.choice([3.0, 0.125]), None)]
    else:
        a_ = rng.choice([4.0, 0.5])
        facs = [(a_, 1), (a_, 2), (rng.choice([2.5, 0.5]), None)]
    sc = 1.0
    for fac_, tg_ in facs:
        if tg_ in (None, 1):
            sc *= fac_
    w = [[0, 0, 0, 0, 0, 5.0], [0, 0, 5.0, 3.0, 1.0, 5.0]]
    base = ['-f', '14', '--excitation-pulse=2']
    # sort keys as the user may write them: the order is numeric (5 before 10, -2 before -1, 9 before 10.5, 1e1 = 10)
    kr, kt = rng.choice([('1', '2'), ('2', '1'), ('5', '10'), ('10', '5'), ('9', '10.5'), ('20', '100'), ('100', '20'),
                         ('-2', '-1'), ('-1', '-2'), ('+3', '1e1'), ('1e1', '+3'), ('0.5', '0.25'), ('3', '3')])
    a1 = base + ['-w', '1,4,%s,.01' % ','.join('%.17g' % x for x in w[0]), '-w', '2,3,%s,.01' % ','.join('%.17g' % x for x in w[1]),
                 '--geo-rotate=%s,%.17g,%.17g,%.17g' % ((kr,) + tuple(rot)), '--geo-translate=%s,%.17g,%.17g,%.17g' % ((kt,) + tuple(tr))] + \
        ['--geo-scale=%.17g%s' % (fac_, '' if tg_ is None else ',%d' % tg_) for fac_, tg_ in facs]
    R = rotmat(*rot)
    rot_first = float(kr) <= float(kt)          # equal keys: rotations are collected before translations
    w2 = []
    for x in w:
        if rot_first:
            p0 = sc * (R @ np.array(x[:3]) + np.array(tr)); p1 = sc * (R @ np.array(x[3:]) + np.array(tr))
        else:
            p0 = sc * (R @ (np.array(x[:3]) + np.array(tr))); p1 = sc * (R @ (np.array(x[3:]) + np.array(tr)))
        w2.append(list(p0) + list(p1))
    a2 = base + ['-w', '4,%s,%.17g' % (','.join('%.17g' % x for x in w2[0]), .01 * sc), '-w', '3,%s,%.17g' % (','.join('%.17g' % x for x in w2[1]), .01 * sc)]
    m1 = run_main(a1, want_mininec=True)['m']; m2 = run_main(a2, want_mininec=True)['m']
    if m1 is None or m2 is None:
        return 'options or coordinates rejected'
    for g1, g2 in zip(m1.geo, m2.geo):
        for s1, s2 in zip(g1.segments, g2.segments):
            if np.max(np.abs(s1.p2 - s2.p2)) > 1e-9 * (1 + np.max(np.abs(s2.p2))):
                return 'segment end %r (options) vs %r (coordinates) for rotate=%r (key %s) translate=%r (key %s) scale=%r' % (s1.p2, s2.p2, rot, kr, tr, kt, sc)
        if abs(g1.r - g2.r) > 1e-12:
            return 'radius %r vs %r' % (g1.r, g2.r)
    m1.compute(); m2.compute()
    if abs(m1.sources[0].impedance - m2.sources[0].impedance) > 1e-6 * abs(m2.sources[0].impedance):
        return 'impedance differs between options and coordinates'
    return None


def options_mixed_tags(rng):
    """three or four rigid motions through the options, some for the whole structure and some for one tagged object, with
    keys that interleave them: the documented order (numeric sort key, each motion applied to the objects it names at its turn)
    against the same structure written into the coordinates"""
    from common import run_main
    w = [np.array([0, 0, 0, 0, 0, 5.0]), np.array([0, 0, 5.0, 3.0, 1.0, 5.0])]
    nops = rng.choice([2, 3, 3, 4])
    keys = rng.sample([1, 2, 3, 5, 8, 10, 20], nops)
    ops = []
    for j, key in enumerate(keys):
        tag = [None, rng.choice([1, 2]), None, rng.choice([1, 2])][(j + rng.randrange(2)) % 4]
        if rng.random() < 0.5:
            ops.append((key, 'rot', [rng.choice([0, 30, 90, round(rng.uniform(-180, 180), 2)]) for _ in range(3)], tag))
        else:
            ops.append((key, 'tr', [round(rng.uniform(-5, 5), 2) for _ in range(3)], tag))
    if not any(t is None for _, _, _, t in ops) or not any(t is not None for _, _, _, t in ops):
        ops[0] = ops[0][:3] + (None,)
        ops[-1] = ops[-1][:3] + (2,)
    a1 = ['-f', '14', '--excitation-pulse=2', '-w', '1,4,%s,.01' % ','.join('%.17g' % x for x in w[0]),
          '-w', '2,3,%s,.01' % ','.join('%.17g' % x for x in w[1])]
    for key, kind, v, tag in ops:
        a1.append('--geo-%s=%d,%s%s' % ('rotate' if kind == 'rot' else 'translate', key, ','.join('%.17g' % x for x in v),
                                        '' if tag is None else ',%d' % tag))
    cur = [x.copy() for x in w]
    for key, kind, v, tag in sorted(ops, key=lambda o: o[0]):
        for t_ in (0, 1):
            if tag is not None and tag != t_ + 1:
                continue
            if kind == 'rot':
                R = rotmat(*v)
                cur[t_] = np.concatenate([R @ cur[t_][:3], R @ cur[t_][3:]])
            else:
                cur[t_] = cur[t_] + np.array(v + v)
    a2 = ['-f', '14', '--excitation-pulse=2', '-w', '1,4,%s,.01' % ','.join('%.17g' % x for x in cur[0]),
          '-w', '2,3,%s,.01' % ','.join('%.17g' % x for x in cur[1])]
    m1 = run_main(a1, want_mininec=True)['m']; m2 = run_main(a2, want_mininec=True)['m']
    if m1 is None or m2 is None:
        return 'options or coordinates rejected: %r' % (a1 if m1 is None else a2,), a1
    for g1, g2 in zip(m1.geo, m2.geo):
        for s1, s2 in zip(g1.segments, g2.segments):
            if np.max(np.abs(s1.p2 - s2.p2)) > 1e-9 * (1 + np.max(np.abs(s2.p2))):
                return 'segment end %r (options) vs %r (coordinates)' % (s1.p2, s2.p2), a1
    if len(m1.pulses) != len(m2.pulses):
        return '%d unknowns through the options, %d with the coordinates' % (len(m1.pulses), len(m2.pulses)), a1
    return None, a1


def options_connectivity(rng):
    """motions requested through the options that decide which ends meet: a half of a dipole written somewhere else and
    moved into place with a per-object --geo-translate (and the converse: written in place, moved away); a loop of an arc
    and a straight wire translated as a whole; each compared with the same structure written into the coordinates
    (exactly representable numbers): same number of unknowns, same feed impedance"""
    from common import run_main
    g17 = lambda v: ','.join('%.17g' % x for x in v)
    f = 14.0
    h = 5.0
    dx, dy, dz = (rng.choice([1.0, -2.0, 0.5, 3.0]) for _ in range(3))
    kind = rng.choice(['join', 'join', 'leave', 'loop', 'loop-rot'])
    if kind in ('join', 'leave'):
        a = ['-w', '1,5,0,0,0,0,0,%g,.01' % h]
        place = [0, 0, h, 0, 0, 2 * h] if kind == 'join' else [0, 0, h + dz, 0 + dx, 0 + dy, 2 * h + dz]
        # variant A: written at its final place
        fin = [0, 0, h, 0, 0, 2 * h] if kind == 'join' else place
        argvA = ['-f', '%g' % f] + a + ['-w', '2,5,%s,.01' % g17(fin), '--excitation-pulse=3']
        if kind == 'join':
            away = [fin[0] + dx, fin[1] + dy, fin[2] + dz, fin[3] + dx, fin[4] + dy, fin[5] + dz]
            argvB = ['-f', '%g' % f] + a + ['-w', '2,5,%s,.01' % g17(away), '--geo-translate=1,%s,2' % g17([-dx, -dy, -dz]),
                                          '--excitation-pulse=3']
        else:
            touching = [0, 0, h, dx, dy, 2 * h]     # shares the end (0,0,h) before it is moved away
            fin = [touching[0] + 2.0, touching[1], touching[2] + 1.0, touching[3] + 2.0, touching[4], touching[5] + 1.0]
            argvA = ['-f', '%g' % f] + a + ['-w', '2,5,%s,.01' % g17(fin), '--excitation-pulse=3']
            argvB = ['-f', '%g' % f] + a + ['-w', '2,5,%s,.01' % g17(touching), '--geo-translate=1,2,0,1,2', '--excitation-pulse=3']
    else:
        R = 2.0
        arc = ['-a', '1,8,%g,90,270,.01' % R]
        wire = ['-w', '2,4,0,0,%g,0,0,%g,.01' % (R, -R)]
        t = [dx, dy, dz]
        rot = [0.0, 0.0, 90.0] if kind == 'loop-rot' else None
        argvB = ['-f', '%g' % f] + arc + wire + (['--geo-rotate=1,%s' % g17(rot)] if rot else []) + \
                ['--geo-translate=2,%s' % g17(t), '--excitation-pulse=2,2']
        # variant A: the loop at the origin (the property: translation changes nothing)
        argvA = ['-f', '%g' % f] + arc + wire + ['--excitation-pulse=2,2']
    ma = run_main(argvA, want_mininec=True)['m']; mb = run_main(argvB, want_mininec=True)['m']
    if ma is None or mb is None:
        return 'options or coordinates rejected (%s)' % kind, (argvA, argvB)
    if len(ma.pulses) != len(mb.pulses):
        return ('%s: the structure written into the coordinates has %d unknowns, the same structure obtained through the '
                'options has %d' % (kind, len(ma.pulses), len(mb.pulses))), (argvA, argvB)
    ma.compute(); mb.compute()
    za, zb = ma.sources[0].impedance, mb.sources[0].impedance
    if abs(za - zb) > 5e-4 * abs(za):
        return '%s: feed impedance %r written into the coordinates, %r through the options' % (kind, za, zb), (argvA, argvB)
    return None, (argvA, argvB)


def curved_motion(rng):
    """a wire with a curved object on its end (a helix hook of one to six segments, an arc), solved as written and after a
    rigid motion of the whole structure requested through the options: same unknowns, same feed impedance and currents"""
    from common import run_main
    g17 = lambda v: ','.join('%.17g' % x for x in v)
    f = 14.0
    if rng.random() < 0.7:
        n = rng.choice([1, 2, 2, 2, 3, 4, 6])
        turns = rng.uniform(0.2, 0.33) * n
        ln = rng.uniform(0.4, 1.0)
        curve = ['-H', '1,%d,%.17g,%.17g,.002,%.17g,%.17g' % (n, ln, ln / turns * rng.choice([1, -1]), rng.uniform(0.3, 0.5), rng.uniform(0.3, 0.5))]
    else:
        curve = ['-a', '1,%d,%.17g,%g,%g,.002' % (rng.randint(3, 6), rng.uniform(0.5, 1.0), rng.choice([0.0, 40.0]), rng.choice([120.0, 200.0]))]
    # the end points of the curve as the program places it (a detached wire carries the source: a one-segment object has no pulse)
    m0 = run_main(['-f', '%g' % f] + curve + ['-w', '9,3,50,50,50,50,50,53,.002', '--excitation-pulse=1,9'], want_mininec=True)['m']
    if m0 is None:
        return 'curved object rejected', (curve, None)
    e = [float(x) for x in m0.geo[0].endpoints[rng.choice([0, 1])]]
    d = np.array([rng.uniform(-1, 1), rng.uniform(-1, 1), rng.uniform(0.3, 1.0)]); d /= np.linalg.norm(d)
    far = [e[k] + float(d[k]) * 9.0 for k in range(3)]
    w = e + far if rng.random() < 0.5 else far + e
    base = ['-f', '%g' % f] + curve + ['-w', '2,9,%s,.002' % g17(w), '--excitation-pulse=5,2']
    mot = []
    if rng.random() < 0.85:
        mot.append('--geo-rotate=1,%s' % g17([rng.choice([0.0, 90.0, rng.uniform(-180, 180)]) for _ in range(3)]))
    if rng.random() < 0.6:
        mot.append('--geo-translate=2,%s' % g17([rng.uniform(-5, 5) for _ in range(3)]))
    if not mot:
        mot.append('--geo-rotate=1,0,0,30')
    ma = run_main(base, want_mininec=True)['m']; mb = run_main(base + mot, want_mininec=True)['m']
    if ma is None or mb is None:
        return 'structure rejected as written (%s) or with the motion options (%s)' % (ma is not None, mb is not None), (base, base + mot)
    if len(ma.pulses) != len(mb.pulses):
        return 'the structure as written has %d unknowns, after the rigid motion %d' % (len(ma.pulses), len(mb.pulses)), (base, base + mot)
    ma.compute(); mb.compute()
    cn = max(float(np.linalg.cond(ma.Z)), float(np.linalg.cond(mb.Z)))
    if cn > 1e5:
        return None, (base, base + mot)
    tol = 5e-4 if cn <= 1e3 else 5e-7 * cn
    za, zb = ma.sources[0].impedance, mb.sources[0].impedance
    if abs(za - zb) > tol * abs(za):
        return 'feed impedance %r as written, %r after the rigid motion %r' % (za, zb, mot), (base, base + mot)
    sc = float(np.max(np.abs(ma.current)))
    if float(np.max(np.abs(ma.current - mb.current))) > tol * sc:
        return 'currents differ by %.3g (relative) after the rigid motion %r' % (float(np.max(np.abs(ma.current - mb.current))) / sc, mot), (base, base + mot)
    return None, (base, base + mot)


R90 = np.array([[0.0, -1.0, 0.0], [1.0, 0.0, 0.0], [0.0, 0.0, 1.0]])


def diagonal_cases(rng):
    """structures over ground with a sloping wire that ends on the ground and runs exactly along a diagonal
    (dx = -dy or dx = dy) or along an axis, grounded at its first or second end; a quarter turn about the
    vertical axis (exact in floats) maps the diagonals onto each other"""
    out = []
    f = 14.0
    lam = 299.8 / f
    seg = lam / 30
    for (dx, dy) in ((-3.0, 3.0), (3.0, 3.0), (3.0, -3.0), (4.0, 0.0), (0.0, -4.0), (-1.0, 2.0)):
        for end2 in (False, True):
            n = rng.randint(4, 6)
            h = rng.choice([3.0, 4.0, 6.0])
            L = math.sqrt(dx * dx + dy * dy + h * h)
            sc = seg * n / L
            top = [dx * sc, dy * sc, h * sc]
            w = dict(nseg=n, p0=[0.0, 0.0, 0.0], p1=top, r=seg / 40) if not end2 else dict(nseg=n, p0=top, p1=[0.0, 0.0, 0.0], r=seg / 40)
            wires = [w]
            if rng.random() < 0.5:
                wires.append(dict(nseg=3, p0=top, p1=[top[0] + 3 * seg, top[1] + seg, top[2]], r=seg / 40))
            out.append(dict(f=f, ground=True, wires=wires, family='diagonal-sloper', lam=lam, seg=seg))
    return out


def nearmiss_cases(rng):
    """two wires whose ends almost meet (3 .. 30 times the joining tolerance of 1/1000 of the shortest segment, a few
    millimetres on a 20 m dipole): whether the ends are joined is decided by their distance relative to the segment
    length, so the decision — and with it the number of unknowns — is the same wherever the antenna is (tens to
    thousands of wavelengths from the origin) and whatever its size (millimetre waves to long waves).  Returns
    (antenna, R, t, s) with the motions that stress exactly that."""
    out = []
    for k in range(4):
        f = rng.choice([7.0, 14.0, 28.0])
        lam = 299.8 / f
        n1, n2 = rng.randint(5, 9), rng.randint(5, 9)
        seg = lam / 40
        tol = seg * 1e-3
        gap = tol * rng.choice([3.0, 8.0, 30.0])
        d = antgen.rand_dir(rng)
        kind = rng.choice(['collinear', 'bent'])
        a0 = -d * seg * n1
        a1 = np.zeros(3)
        b0 = d * gap
        e = d if kind == 'collinear' else antgen.unit(np.cross(d, antgen.rand_dir(rng)) + 0.3 * d)
        b1 = b0 + e * seg * n2
        ant = dict(f=f, ground=False, family='nearmiss-' + kind, lam=lam, seg=seg,
                   wires=[dict(nseg=n1, p0=[float(x) for x in a0], p1=[float(x) for x in a1], r=seg / 50),
                          dict(nseg=n2, p0=[float(x) for x in b0], p1=[float(x) for x in b1], r=seg / 50)])
        R = rotmat(rng.uniform(-180, 180), rng.uniform(-180, 180), rng.uniform(-180, 180))
        far = lam * rng.choice([25.0, 300.0, 5000.0])
        t = antgen.rand_dir(rng) * far
        out.append((ant, np.eye(3), t, 1.0))
        out.append((ant, R, t * 0.5, 1.0))
        out.append((ant, np.eye(3), np.zeros(3), rng.choice([1e-5, 2e-4])))     # millimetre waves: segments far below 1 mm
        out.append((ant, R, np.zeros(3), rng.choice([300.0, 1e4])))
    return out


def replay(rp):
    if rp.get('kind') == 'options-connectivity':
        from common import run_main
        ma = run_main(rp['argv_coordinates'], want_mininec=True)['m']; mb = run_main(rp['argv_options'], want_mininec=True)['m']
        bad = None
        if ma is None or mb is None:
            bad = 'rejected'
        elif len(ma.pulses) != len(mb.pulses):
            bad = '%d vs %d unknowns' % (len(ma.pulses), len(mb.pulses))
        else:
            ma.compute(); mb.compute()
            if abs(ma.sources[0].impedance - mb.sources[0].impedance) > 5e-4 * abs(ma.sources[0].impedance):
                bad = 'impedance %r vs %r' % (ma.sources[0].impedance, mb.sources[0].impedance)
        print('replay ->', bad or 'property holds')
        return 1 if bad else 0
    if 'ant' not in rp:
        print('replay: nothing to execute:', rp.get('kind'))
        return 1
    bad = property_on_impl(rp['ant'], rp['src_seed'], np.array(rp['R']), np.array(rp['t']), rp['s'])
    print('replay ->', bad or 'property holds')
    return 1 if bad else 0


def run(ck):
    import c02
    ck.proof_side()
    ck.cov['further_clauses'] = 'command lines of two to four rigid motions, whole-structure and per-tag with interleaving sort keys, against coordinates computed in key order'
    d = ck.get_driver()
    rng = ck.rng
    n = 25 if ck.tier == 'quick' else 300
    dis, viol = [], []
    for i in range(n):
        ant = antgen.gen_antenna(rng, max_pulses=12 if ck.tier == 'quick' else 40)
        R, t, s = gen_motion(rng, ant['ground'])
        ss = rng.randrange(10 ** 9)
        mv = moved(ant, R, t, s)
        ck.case((ant['family'], ant['ground'], round(s, 3) != 1.0, i), True,
                sample=dict(family=ant['family'], ground=ant['ground'], scale=s, shift=list(t)))
        ck.count('ground' if ant['ground'] else 'free'); ck.count('scaled' if s != 1.0 else 'unscaled')
        # tie on the moved geometry
        a, sp, st = c02.evaluate(d, mv)
        if a:
            dis.append(dict(ant=mv, why=a))
        bad = property_on_impl(ant, ss, R, t, s)
        if bad:
            viol.append(dict(kind='motion', ant=ant, src_seed=ss, R=R.tolist(), t=t.tolist(), s=s, observed=bad))
        elif s != 1.0:
            st = scaling_tie(ant, ss, R, t, s)
            ck.count('scaling_tie_cases')
            if st:
                dis.append(dict(ant=mv, why=st))
    for ant in diagonal_cases(rng):
        for R in (R90, R90 @ R90, rotmat(0, 0, 45.0)):
            ss = rng.randrange(10 ** 9)
            ck.case(('diagonal', tuple(ant['wires'][0]['p1']), tuple(ant['wires'][0]['p0']), float(R[0, 0])), True)
            a, sp, st = c02.evaluate(d, moved(ant, R, np.zeros(3), 1.0))
            if a:
                dis.append(dict(ant=moved(ant, R, np.zeros(3), 1.0), why=a))
            bad = property_on_impl(ant, ss, R, np.zeros(3), 1.0)
            if bad:
                viol.append(dict(kind='motion', ant=ant, src_seed=ss, R=R.tolist(), t=[0.0, 0.0, 0.0], s=1.0, observed=bad))
    for ant, R, t, sc in nearmiss_cases(rng)[:(16 if ck.tier == 'quick' else 64)]:
        ss = rng.randrange(10 ** 9)
        ck.case(('nearmiss', ant['family'], float(np.linalg.norm(t)), sc), True)
        ck.count('nearmiss_cases')
        bad = property_on_impl(ant, ss, R, t, sc)
        if bad:
            viol.append(dict(kind='motion', ant=ant, src_seed=ss, R=R.tolist(), t=t.tolist(), s=sc, observed=bad))
    for i in range(10 if ck.tier == 'quick' else 60):
        bad, argvs = options_connectivity(rng)
        ck.case(('options-connectivity', i), True)
        ck.count('options_connectivity_cases')
        if bad:
            viol.append(dict(kind='options-connectivity', observed=bad, argv_coordinates=argvs[0], argv_options=argvs[1]))
    for i in range(16 if ck.tier == 'quick' else 200):
        bad, argvs = curved_motion(rng)
        ck.case(('curved-motion', i), True)
        ck.count('curved_motion_cases')
        if bad:
            viol.append(dict(kind='options-connectivity', observed=bad, argv_coordinates=argvs[0], argv_options=argvs[1]))
    for i in range(10 if ck.tier == 'quick' else 100):
        bad = options_vs_coords(rng)
        ck.case(('options', i), True)
        if bad:
            viol.append(dict(kind='options', observed=bad))
    for i in range(30 if ck.tier == 'quick' else 400):
        bad, argv = options_mixed_tags(rng)
        ck.case(('options-mixed-tags', i), True)
        ck.count('options_mixed_tags_cases')
        if bad:
            viol.append(dict(kind='options', observed=bad, argv=argv))
    ck.stats['disagreements'] = len(dis)
    ck.cov['rule'] = ('antennas from the shared generator, moved by random rotations about three axes and translations up to 100 m '
                      '(free space) / yaw and horizontal shifts (ground), scale factors 0.01..100 with f/s; matrix of the moved '
                      'antenna compared with the Lean fill model; moved vs original currents, impedances and gains on the '
                      'implementation with the condition-number rule; options vs coordinates; two-wire structures whose ends miss each other by '
                      '3-30 joining tolerances, moved 12-5000 wavelengths from the origin and scaled by 1e-5 .. 1e4')
    ck.assumptions += ['over floats the Gauss-order thresholds (t = 6, 10) are hit exactly on uniform wires and a rotated copy may fall on the other side: observed effect <= 1e-5 of the potential scale, absorbed by the 5e-4 of the property',
                       'scaling and pattern clauses are evaluated on the implementation only']
    seen = set()
    for v in viol:
        k = v['observed'][:30]
        if k not in seen:
            seen.add(k); ck.violation(v)
    if (dis or ck.broken) and not viol:
        ck.violation(dict(kind='broken-tie', detail=dict(broken=ck.broken, disagreements=[x['why'] for x in dis[:3]]),
                          first_case=dis[0]['ant'] if dis else None,
                          theorem='Pmn.Props.C05.* / correspondence fill entries on moved antennas'), found_input=False)
