"""C14 — results depend only on the inputs: no history, no run-to-run variation.

Proof side : Pmn/Props/C14.lean — cache-coherence invariant of the abstract session machine for
             arbitrary physics; every observation of every history equals a fresh run.
Tie        : (i) write-set discovery: attributes written by each operation of a random history on the
             real object (reflection) must be within the model's declared write-sets, frequency
             dependent caches must be empty after a frequency change; (ii) every observation of the
             history is compared *bit for bit* with a fresh object at that frequency; (iii) two fresh
             processes per command line: byte-equal stdout and option / BASIC files.
Search     : (ii) and (iii) are the property itself on the implementation.
"""
import os, sys, subprocess, tempfile, hashlib, random, shutil
import numpy as np
import antgen, c08, common

LEVEL = 'proof'
MODULES = ['C14']
antgen.WARM['on'] = False     # C14 builds its own histories; the write-set discovery needs plain Mininec objects
FREQS = [3.5, 7.0, 7.1, 14.0, 21.2, 28.5]


def h(v):
    if isinstance(v, np.ndarray):
        return ('nd', v.shape, hashlib.sha1(np.ascontiguousarray(v).tobytes()).hexdigest())
    if isinstance(v, (int, float, complex, str, bool, type(None), np.generic)):
        return repr(v)
    if isinstance(v, (list, tuple)):
        return tuple(h(x) for x in v)
    if isinstance(v, dict):
        return tuple(sorted((str(k), h(x)) for k, x in v.items()))
    if isinstance(v, set):
        return ('set', len(v))
    return ('obj', type(v).__name__, id(v))


def snapshot(m):
    s = {}
    for k, v in m.__dict__.items():
        if k in ('geo', 'pulses', 'loads', 'sources', 'end_dict'):
            continue
        s[k] = h(v)
    for g in m.geo:
        for k, v in g.__dict__.items():
            if k in ('parent', 'conn', 'pulses', 'segments', 'skin_load', 'coat_load'):
                continue
            s['geo.%s#%d' % (k, g.n)] = h(v)
    for i, l in enumerate(m.loads):
        for k, v in l.__dict__.items():
            if k in ('pulses', 'geobj'):
                continue
            s['load.%s#%d' % (k, i)] = h(v)
    pc = m.pulses
    for k, v in pc.__dict__.items():
        if k == 'pulses':
            continue
        s['pulses.' + k] = h(v)
    for i, p in enumerate(pc.pulses):
        s['pulses.cache#%d' % i] = tuple(sorted(p.__dict__.keys()))
    return s


def container_values(m):
    """flat {name or name[key]: hash} of everything the pulse container caches"""
    out = {}
    for k, v in m.pulses.__dict__.items():
        if k == 'pulses':
            continue
        if isinstance(v, dict):
            for kk, vv in v.items():
                out['%s[%r]' % (k, kk)] = h(vv)
        else:
            out[k] = h(v)
    return out


def diff(a, b):
    names = set()
    for k in set(a) | set(b):
        if a.get(k) != b.get(k):
            names.add(k.split('#')[0])
    return names


def gen_model(seed):
    rng = random.Random(seed)
    ant, m, desc = c08.gen_loaded(rng, small=True)
    return ant, m, desc


_ANGLES = {}


def observe(m, op):
    from mininec.mininec import Angle
    kind = op[0]
    if kind == 'setF':
        m.f = op[1]
        return None
    if kind == 'compute':
        m.compute()
        return [m.current.copy(), np.array(m.power), m.Z.copy(), m.rhs.copy()]
    if kind == 'far':
        z, a, pwr, dist = op[1]
        kw = {}
        if pwr:
            kw['pwr'] = pwr
        if dist:
            kw['dist'] = dist
        # half of the models are asked through one pair of Angle objects whose attributes the caller changes from request
        # to request (a script scanning cuts): a request is the angles it names when it is made, not the object that carries them
        if len(m.pulses) % 2 == 0:
            ang = _ANGLES.get(id(m))
            if ang is None:
                ang = _ANGLES[id(m)] = (Angle(*z), Angle(*a), m)
            else:
                for obj, v in zip(ang, (z, a)):
                    obj.initial, obj.inc, obj.number = v
            m.compute_far_field(ang[0], ang[1], **kw)
        else:
            m.compute_far_field(Angle(*z), Angle(*a), **kw)
        ff = m.far_field
        return [np.array(ff.gain), np.array(ff.e_theta), np.array(ff.e_phi)]
    if kind == 'near':
        st, inc, cnt, pwr = op[1]
        kw = {}
        if pwr:
            kw['pwr'] = pwr
        m.compute_near_field(st, inc, cnt, **kw)
        return [np.array(m.e_field), np.array(m.h_field)]


def same(a, b):
    if a is None or b is None:
        return a is b
    return len(a) == len(b) and all(x.shape == y.shape and x.tobytes() == y.tobytes() for x, y in zip(a, b))


def crossing_freqs(m):
    """frequencies on both sides of the small-radius threshold r = 1e-4 lambda of the model's radii"""
    out = []
    for g in m.geo:
        fc = 299.8e-4 / float(g.r)
        if 1.0 < fc < 120.0:
            out += [round(fc * 0.7, 4), round(fc * 1.3, 4)]
    return out


def gen_history(rng, f0, extra=()):
    ops = []
    n = rng.randint(3, 8)
    valid = False
    freqs = FREQS + list(extra) * 2
    while len(ops) < n:
        k = rng.choice(['setF', 'compute', 'compute', 'far', 'near', 'far'])
        if k == 'setF':
            ops.append(('setF', rng.choice(freqs)))
            valid = False
        elif k == 'compute':
            ops.append(('compute',))
            valid = True
        elif valid:
            if k == 'far':
                ops.append(('far', ((rng.choice([0, 10]), rng.choice([30, 45]), 3), (0, rng.choice([90, 120]), 2),
                                    rng.choice([None, 100.0]), rng.choice([None, None, 1000.0]))))
            else:
                ops.append(('near', ([rng.uniform(3, 5), rng.uniform(3, 5), rng.uniform(3, 5)], [0.5, 0.5, 0.5], [2, 1, 2],
                                     rng.choice([None, 50.0]))))
    return ops


def run_history(seed, ops):
    """returns (list of (op, freq, observation, written names)), model object"""
    ant, m, desc = gen_model(seed)
    out = []
    for op in ops:
        before = snapshot(m)
        obs = observe(m, op)
        after = snapshot(m)
        out.append((op, m.f, obs, diff(before, after), after))
    return out, m, desc


def fresh_obs(seed, f, op):
    ant, m, desc = gen_model(seed)
    m.f = f
    if op[0] != 'compute':
        m.compute()
    return observe(m, op)


def property_history(seed, ops):
    out, m, desc = run_history(seed, ops)
    for i, (op, f, obs, w, snap) in enumerate(out):
        if op[0] == 'setF':
            continue
        fo = fresh_obs(seed, f, op)
        if not same(obs, fo):
            what = 'currents' if op[0] == 'compute' else op[0] + ' field'
            dz = ''
            if op[0] == 'compute':
                dz = ' (max |dI|/|I| = %.3g)' % (np.max(np.abs(obs[0] - fo[0])) / np.max(np.abs(fo[0])))
            return 'operation %d (%s at %g MHz) of the history differs from a fresh run: %s%s; loads %s' % (i + 1, op[0], f, what, dz, desc)
    return None


def two_process(argv, tmp):
    res = []
    for k in (0, 1):
        d = os.path.join(tmp, 'run%d' % k)
        os.makedirs(d, exist_ok=True)
        cmd = [sys.executable, '-c', 'import sys; from mininec.mininec import main; sys.exit(main(sys.argv[1:]) or 0)'] + argv + \
              ['--output-cmdline=' + os.path.join(d, 'o.cmd'), '--output-basic-input=' + os.path.join(d, 'o.mini')]
        # two runs of the same command line: another hash seed, another working directory, another user, and clocks set to
        # time zones 26 hours apart (the two local dates always differ) — none of which is an input of the computation
        env = dict(os.environ, PYTHONHASHSEED=str(k + 1), PYTHONPATH=common.REPO, TZ=('AAA12', 'BBB-14')[k],
                   USER=('alice', 'bob')[k], LOGNAME=('alice', 'bob')[k], HOME=d, LC_ALL=('C', 'C.UTF-8')[k])
        p = subprocess.run(cmd, stdout=subprocess.PIPE, stderr=subprocess.PIPE, env=env, cwd=d)
        files = {}
        for fn in ('o.cmd', 'o.mini'):
            fp = os.path.join(d, fn)
            files[fn] = open(fp, 'rb').read() if os.path.exists(fp) else None
        res.append((p.returncode, p.stdout, files))
    if res[0][0] != res[1][0]:
        return 'return codes differ'
    if res[0][1] != res[1][1]:
        return 'stdout differs between two runs'
    for fn in ('o.cmd', 'o.mini'):
        if res[0][2][fn] != res[1][2][fn]:
            return 'file %s differs between two runs' % fn
    return None


CMDLINES = [
    ['-f', '7', '--frequency-steps=2', '--frequency-increment=7', '--skin-effect-conductivity=1e5'],
    ['-w', '4,0,0,0,0,0,5,.001', '-w', '4,0,0,5,0,3,5,.001', '-w', '3,0,0,5,2,-2,6,.002', '--excitation-pulse=2',
     '--load=5+3j', '--attach-load=1,all', '--rlc-load=1,1e-6,', '--attach-load=2,1,2', '--attach-load=2,2,3',
     '--insulation-load=.004,2.5', '--skin-effect-conductivity=5e7', '--theta=0,30,3', '--phi=0,90,2'],
    ['-w', '5,0,0,0,0,0,8,.001', '--medium=0,0,0', '--excitation-pulse=1', '--trap-load=1,1e-5,1e-11', '--attach-load=1,3',
     '--near-field=1,1,1,1,1,1,2,2,1', '-f', '14'],
    # several field options in one run, several loads, sources and transformations: everything that is kept in a set
    # or a dict somewhere on the way to the output is iterated in these runs
    ['-w', '5,0,0,0,0,0,8,.001', '--excitation-pulse=2', '--option=far-field', '--option=near-field', '--option=far-field-absolute',
     '--near-field=1,1,1,1,1,1,2,1,1', '--ff-distance=100', '--theta=0,45,2', '--phi=0,90,2', '-f', '14'],
    ['-w', '5,0,0,0,0,0,8,.001', '--medium=0,0,0', '--excitation-pulse=2', '--option=near-field', '--option=far-field',
     '--near-field=1,1,1,1,1,1,1,2,1', '--theta=0,45,2', '--phi=0,90,2', '--frequency-steps=2', '--frequency-increment=1', '-f', '7'],
    ['-w', '7,3,0,0,0,0,0,5,.001', '-w', '3,3,0,0,5,2,0,5,.001', '-w', '12,2,0,0,5,0,2,6,.001', '--excitation-pulse=1,7',
     '--excitation-pulse=1,12', '--excitation-voltage=1', '--excitation-voltage=0.5j', '--load=5', '--load=7+1j', '--load=2-2j',
     '--attach-load=3,all,3', '--attach-load=1,1,12', '--attach-load=2,all', '--attach-load=1,2,7',
     '--skin-effect-conductivity=5e7,3', '--skin-effect-conductivity=3e7,12', '--insulation-load=.004,2.5,7',
     '--geo-translate=2,1,0,0', '--geo-rotate=1,0,0,30,3', '--geo-scale=0.5', '--option=far-field-absolute', '--option=far-field',
     '--ff-distance=50', '--theta=0,45,2', '--phi=0,90,2'],
]


def replay(rp):
    if rp.get('kind') == 'history':
        ops = [tuple(tuple(x) if isinstance(x, list) else x for x in op) for op in rp['ops']]
        ops = [(o[0],) + tuple(o[1:]) for o in ops]
        bad = property_history(rp['gen_seed'], ops)
    elif rp.get('kind') == 'two-process':
        tmp = tempfile.mkdtemp(prefix='c14_')
        try:
            bad = two_process(rp['argv'], tmp)
        finally:
            shutil.rmtree(tmp, ignore_errors=True)
    else:
        print('replay: nothing to execute:', rp.get('kind'))
        return 1
    print('replay ->', bad or 'property holds')
    return 1 if bad else 0


def run(ck):
    ck.proof_side()
    ck.cov['further_clauses'] = 'the two processes run with clocks 26 h apart (TZ), another user, home, locale, hash seed and working directory'
    d = ck.get_driver()
    declared = {k: set(d.ask('sess writes', k).split()) for k in ('setF', 'compute', 'far', 'near')}
    geocaches = set(d.ask('sess geocaches').split())
    rng = ck.rng
    n = 40 if ck.tier == 'quick' else 500
    dis, viol = [], []
    corpus = [(777, [('compute',), ('setF', 14.0), ('compute',)], True)]
    cases = [(rng.randrange(10 ** 9), None, False) for _ in range(n)]
    for seed, ops, is_corpus in corpus + cases:
        if ops is None:
            ops = gen_history(rng, 7.0, crossing_freqs(gen_model(seed)[1]))
        if is_corpus:
            # corpus: force a skin-effect model
            for s2 in range(seed, seed + 200):
                if 'skin' in str(gen_model(s2)[2][-1]) or 'both' in str(gen_model(s2)[2][-1]):
                    seed = s2
                    break
        out, m, desc = run_history(seed, ops)
        ck.case((seed, tuple(o[0] for o in ops)), len(ops) > 2,
                sample=dict(gen_seed=seed, loads=[str(x) for x in desc], ops=[o[0] if o[0] != 'setF' else 'setF %g' % o[1] for o in ops]))
        for o in ops:
            ck.count('op_' + o[0])
        ck.count('dist_' + str(desc[-1]))
        why = None
        # every attribute of the pulse container is a declared geometry cache, and holds what a fresh
        # object at another frequency holds under the same name
        unknown = sorted(k for k in m.pulses.__dict__ if k != 'pulses' and k not in geocaches)
        if unknown:
            why = 'pulse container carries caches the model does not declare: %s' % unknown
        ref = gen_model(seed)[1]
        ref.f = 10.0
        ref.compute()
        observe(ref, ('far', ((0, 30, 3), (0, 90, 2), None, None)))
        observe(ref, ('near', ([3.0, 3.0, 3.0], [0.5, 0.5, 0.5], [2, 1, 2], None)))
        cv, rv = container_values(m), container_values(ref)
        for k in sorted(set(cv) & set(rv)):
            if cv[k] != rv[k]:
                why = 'geometry cache %s differs from a fresh object at another frequency' % k
                break
        ck.count('geo_cache_values_compared', len(set(cv) & set(rv)))
        for (op, f, obs, w, snap) in out:
            w = {('pulses.cache' if (k.startswith('pulses.') and k[7:] in geocaches) else k) for k in w}
            extra = w - declared[op[0]] - {'timing'}
            if extra:
                why = 'operation %s writes undeclared attributes %s' % (op[0], sorted(extra))
            if op[0] == 'setF':
                for k, v in snap.items():
                    if k.startswith('geo.zint#') and v != 'None':
                        why = 'frequency-dependent cache %s not empty after a frequency change' % k
                for k in ('Z', 'rhs'):
                    if snap.get(k) != 'None':
                        why = '%s not cleared by the frequency setter' % k
        bad = property_history(seed, ops)
        if bad:
            viol.append(dict(kind='history', gen_seed=seed, ops=[list(o) for o in ops], observed=bad))
        elif why:
            dis.append(dict(gen_seed=seed, ops=[list(o) for o in ops], why=why))
    tmp = tempfile.mkdtemp(prefix='c14_')
    try:
        for argv in (CMDLINES[:1] + CMDLINES[-3:] if ck.tier == 'quick' else CMDLINES):
            bad = two_process(argv, tmp)
            ck.case(('two-process', tuple(argv)), True)
            if bad:
                viol.append(dict(kind='two-process', argv=argv, observed=bad))
        # sweep step k equals a fresh single-frequency run (through main)
    finally:
        shutil.rmtree(tmp, ignore_errors=True)
    ck.stats['disagreements'] = len(dis)
    ck.cov['rule'] = ('random histories (3-8 operations: frequency changes among 6 values, compute, far-field and near-field requests '
                      'with and without power/distance) on models with every load kind (shared loaded-antenna generator); each '
                      'observation compared bit for bit with a fresh object; attribute diffs compared with the declared write-sets; '
                      'non-trivial = more than two operations; distinct = distinct (model seed, operation kinds)')
    ck.assumptions += ['set iteration order in as_cmdline_load_attach is a function of the process history (two runs with different PYTHONHASHSEED are compared)',
                       'BLAS runs single-threaded in the check (OMP/OPENBLAS_NUM_THREADS=1), so repeated solves are bit-reproducible']
    seen = set()
    for v in viol:
        key = v['observed'][:40]
        if key in seen:
            continue
        seen.add(key)
        ck.violation(v)
        if len(seen) >= 3:
            break
    if (dis or ck.broken) and not viol:
        # broken tie without a failing history so far: sweep search with more histories on skin-effect / insulated models
        found = False
        for t in range(150):
            seed = rng.randrange(10 ** 9)
            cf = crossing_freqs(gen_model(seed)[1])
            ops = gen_history(rng, 7.0, cf)
            if cf and t % 2 == 0:
                ops = [('setF', cf[0]), ('compute',), ('setF', cf[1]), ('compute',), ('setF', cf[0]), ('compute',)]
            bad = property_history(seed, ops)
            if bad:
                ck.violation(dict(kind='history', gen_seed=seed, ops=[list(o) for o in ops], observed=bad))
                found = True
                break
        if not found:
            ck.violation(dict(kind='broken-tie', detail=dict(broken=ck.broken, disagreements=dis[:3]),
                              theorem='Pmn.Props.C14.* / correspondence write-sets'), found_input=False)
