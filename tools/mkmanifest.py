#!/usr/bin/env python3
"""Writes MANIFEST.json from the table below (kept in one place so it stays valid)."""
import json, os
ROOT = os.path.dirname(os.path.dirname(os.path.abspath(__file__)))
PY = '/venv/bin/python harness/check.py'
TB = ('Lean 4.33 kernel; axioms propext/Classical.choice/Quot.sound only (audited each run); '
      'hand-written Lean model tied to /repo by the correspondence run of this check and by constants regenerated from the AST; ')

CHECKS = {
 'C16': dict(level='proof', ref='§6 C16', technique='Lean 4 theorems on list model + bit-exact grid correspondence',
   text='Lean theorems (any commutative ring, any counts): angle list, far-field table and near-field grid have exactly the requested number of entries, entry k = start + k*step, documented order. Model tied to the code by bit-exact comparison of the implementation\'s grids/tables with the executed model.',
   note=TB + 'IEEE rounding of start + k*step and numpy meshgrid semantics are outside the theorems.'),
 'C19': dict(level='proof', ref='§6 C19', technique='Lean 4 theorems on exact-rational format_float model + string-equal correspondence',
   text='Lean theorems for every finite double: the number denoted by the printed field is within 5e-7 relative (|f|>=1, and exponent format), 5e-7 absolute (0.1<=|f|<1, i.e. 5e-6 relative), <1e-6 absolute (fixed-point fields below 0.1) of the value; zero prints as 0. Model tied string-for-string to util.format_float; printed source blocks are read back against the in-memory values. Report row structure (rows per pulse etc.) is tied under C09/C12/C17, not here.',
   note=TB + "CPython '%f'/'%e' correct rounding is modelled, not verified; the reader used for `fmtVal` vs text is executed per case, not proved."),
 'C12': dict(level='proof', ref='§6 C12', technique='Lean 4 induction over the object fold (Topo.build) + exact topology correspondence',
   text='Lean theorems for every object list: pulse count = sum(segments-1) + grounded ends + attaching ends (= sum over junctions of k-1), gap-free numbering with consecutive per-object blocks, ownership, junction/ground pulse shape, joining rule (attach iff an earlier end coincides or lies within tolerance), dup-error branch. Model tied to compute_connections by exact comparison of pulse table, per-object pulse lists, end_segs, ground flags on random wire graphs incl. tolerance-scale perturbations.',
   note=TB + 'segment end points are upstream data (C13); np.linalg.norm modelled as sqrt(x^2+y^2+z^2); global "joined iff within tolerance" needs a separated point set (only the local lookup rule is a theorem).'),
 'C09': dict(level='proof', ref='§6 C09', technique='Lean 4 invariant proof (junction structure) + Kirchhoff algebra over any commutative ring + exact report correspondence',
   text='Lean theorems: every registering end of every accepted antenna is a NodeOK junction (C09_structure); Kirchhoff holds for every current vector with full sums (C09_kcl) and, for the code as it is (first-end junction line = last term only), on the junction class where that changes nothing (C09_kcl_code_partial); the defect is a kernel-checked witness (C09_defect_witness); free ends print E. Tied by exact comparison of conn lists and of the printed CURRENT DATA block for random integer currents. The defect class is a known finding; every other Kirchhoff failure on the printed report is a violation.',
   note=TB + 'known finding end1-junction-line-keeps-last-term (known_findings.json): the property is violated on the unchanged tree for that class; the check prints KNOWN-FINDING and still evaluates Kirchhoff exactly on every generated report.'),
 'C17': dict(level='proof', ref='§6 C17', technique='Lean 4 theorems on addressing functions + exhaustive query correspondence per generated antenna',
   text='Lean theorems: absolute number k resolves to pulse k; (k,t) resolves to row k of the block of the object tagged t; rejections; all-of-antenna attaches 0..N-1 exactly once (from the numbering theorem), all-of-object attaches its block without duplicates; junction pulse is owned by the later object; explicit tags kept, automatic tags after the maximum, processing order is a sorted rearrangement. Tied by comparing tags, order, every valid and several invalid queries through register_source and register_load, geometry table blocks and listings.',
   note=TB + 'generated structures are wires (arcs/helices share the Geobj pulse lists); main() option parsing of --excitation-pulse / --attach-load is tied under C15/C20.'),
 'C07': dict(level='proof', ref='§6 C07', technique='Lean 4 / Mathlib linear algebra over C + rhs / residual / source-data correspondence',
   text='Lean theorems over C for any matrix size: the right-hand side (assignment semantics, duplicates allowed) is homogeneous and additive in the voltage vector and decomposes into single-source right-hand sides; the solution of an invertible system is unique, scales and superposes; V/I is invariant and Re(V conj I)/2 scales with |c|^2. Tied by comparing compute_rhs, the residual of the direct solve, Excitation.impedance/.power and total power with the executed model.',
   note=TB + 'np.linalg.solve is specified by Z*I = rhs (residual checked per case); floating-point rounding is outside the theorems.'),
 'C08': dict(level='proof', ref='§6 C08', technique='Lean 4 / Mathlib (matrix rank-one update, field identities) + load-class and diagonal-increment correspondence',
   text='Lean theorems: a load on the feed pulse shifts V/I by exactly Z_L for any invertible system, grounded pulses included (weights of load and excitation have ratio Z_L/V); several loads on a pulse act as their sum; series RLC / RL / trap circuit identities at every frequency; zero load, eps_r = 1 insulation (inductance 0, radius unchanged), sigma vs 1/rho; squared modulus of the asymptotic skin-effect impedance is w*mu0/(sigma*(2 pi r)^2), hence -> 0. Tied by comparing every load class, cached zint/zins, equivalent radius and the diagonal increments of the matrix with the executed model; the Bessel ratio of the model is compared with scipy.',
   note=TB + 'Bessel-branch skin effect: no theorem about J0/J1 (abstract parameter), tied numerically at 1e-9; the distribution of per-length impedance over half segments is checked on the implementation against an independent closed form.'),
 'C14': dict(level='proof', ref='§6 C14', technique='Lean 4 invariant proof on an abstract session state machine + bit-exact history-vs-fresh correspondence',
   text='Lean theorems for arbitrary physics functions: cache coherence is an invariant of every operation (frequency change, compute, far, near); every observation of every history equals that of a fresh single-frequency run; repeated / reordered field requests and repeated computes agree; the original setter (cache not reset) is refuted by a kernel-checked 3-operation witness. Tied by attribute write-set discovery on the real object, by bit-for-bit comparison of every observation of random histories (all load kinds) with fresh objects, and by running command lines twice in fresh processes (different PYTHONHASHSEED) with byte-equal stdout and option files.',
   note=TB + 'the session machine abstracts Z/rhs/current/power into one unit and the pulse-container caches into frequency-independent data (confirmed by the write-set diff); process-level nondeterminism is sampled (two runs), not proved.'),
 'C18': dict(level='proof', ref='§6 C18', technique='Lean 4 round-trip theorem (prompt-order reader after writer) on a token-level model + line-by-line text correspondence',
   text='Lean theorem: readAntenna (writeAntenna m ++ rest) = some (m, rest) for every model in normal form — any number of media (linear/circular, radials), wires, sources (pulse, magnitude, phase in degrees) and loads (impedance or S-parameter with any order); emulation of tapered wires/arcs/helices yields one single-segment wire per segment. Tied by comparing Mininec.as_basic_input line by line with the rendered model output for generated command lines (all structure kinds, media forms, load kinds, versions 9/12/13); an independent Python reader checks the semantic content of the real text.',
   note=TB + 'numbers are opaque in the model (rendered by Python % with the format recorded in the token); the projection Mininec -> BASIC model (what "the same antenna" means) is harness code; the BASIC prompt order is read off the comments in the source.'),
 'C15': dict(level='proof', ref='§6 C15', technique='Lean 4 round-trip theorems on the option sub-languages + real write/re-read round trip on generated command lines',
   text='Lean theorems for lists of any length: sources (pulse / voltage options paired by position, defaults) round-trip; lumped loads in definition order come back with exactly their attachments and every written --attach-load number refers to its load; the reader always yields class-sorted loads; the attachment forms chosen by the writer (N,all / N,all,tag / N,pulse) denote exactly the attached pulses with multiplicity (permutation theorem); the written complex load value parses back for either sign; --taper-wire names the tapered wire. Each of the five repaired writer defects is refuted for the former rule by a kernel-checked witness. Tied by comparing the structure of Mininec.as_cmdline with the Lean writer on the projected model and by the real round trip main -> as_cmdline -> main (objects, sources, loads per pulse, media, feed impedance, second-generation option set).',
   note=TB + 'partial: tags of objects, transformation order, media and numeric formatting (%g/%.11g through float()) have no theorem; they are covered by the real round trip on the implementation (numbers compared at 2e-6).'),
 'C20': dict(level='proof', ref='§6 C20', technique='Lean 4 theorems on the guard structure and an exhaustively tied validation decision table + fuzzing of the real main',
   text='Lean theorems: the except clause around the compute loop — its exception names are regenerated from the AST of main on every run — catches every exception class the numerical kernel can raise, and non-finite results become the diagnostic, so the kernel can only end in report or diagnostic (C20_kernel_guard); the validation decision table (49 numeric inputs x 5 value classes) has only admissible outcomes and lets only harmless value classes through (decide over the whole table); composition for one malformed input at a time (C20_trichotomy_partial). The table is compared exhaustively with the real main on every run; a fuzzing stream of documented options with arbitrary values searches for escaped exceptions, non-finite output, report-plus-diagnostic and empty output.',
   note=TB + 'partial: argument lists with several simultaneous malformed values, argparse itself and the set kernelRaises are not theorems (fuzzed); time-limited cases are not judged.'),
 'C13': dict(level='proof', ref='§6 C13', technique='Lean 4 / Mathlib theorems over R on the segmentation and transformation model + segment-table correspondence',
   text='Lean theorems over R: equal segmentation gives n chained segments with end point i = p1 + (i+1)/n (p2-p1), the last one p2; arc points lie on the circle in the X-Z plane at uniform angular steps from ang1; helix points lie on the (radius-tapered) ellipse at their height; the rotation matrix of any three angles (with the zero-angle shortcut) preserves all dot products, hence lengths and angles; transformations are applied in non-decreasing key order and none is lost; scaling multiplies lengths by s; one- and two-sided tapers, whenever accepted, yield exactly n segments chaining from p1 to p2, and tapering the other end is the mirrored taper. Partial: taper positivity, growth <= 2.1, >= max(2.5 r, min), <= max are not theorems; they are evaluated on every generated taper of the implementation. The model (incl. the full taper algorithms) is tied to the code by comparing segment tables at rtol 1e-11 and accept/reject classes exactly.',
   note=TB + 'numpy matmul / norm / float % are modelled; the 2.5 r factor is regenerated from taper.py.'),
}
NOT_YET = {}

def main():
    props = [json.loads(l)['id'] for l in open(os.path.join(ROOT, 'properties.jsonl'))]
    checks = []
    for pid in props:
        if pid in CHECKS:
            c = CHECKS[pid]
            checks.append(dict(property_id=pid,
                quick_cmd='%s %s --tier quick' % (PY, pid),
                thorough_cmd='%s %s --tier thorough' % (PY, pid),
                evidence_file='evidence/%s.json' % pid,
                replay_cmd_template='%s %s --replay {path}' % (PY, pid),
                engine='lean4-model+correspondence',
                level_claimed=dict(category=c['level'], text=c['text'], design_ref=c['ref']),
                level_note=c['note'], technique=c['technique']))
    na = [dict(property_id=p, reason=NOT_YET.get(p, 'machinery for this property is not built yet at this commit (see DESIGN.md §10 for the order of construction); no claim is made'))
          for p in props if p not in CHECKS]
    man = dict(version=1,
        setup_cmd='cd lean && /venv/bin/python ../harness/extract_constants.py && lake build',
        hooks=dict(guard='PYMININEC_VERIF', enable='none needed: all observation points are public attributes or return values of /repo; no hook commits exist',
                   baseline_off_cmd='cd /repo && /venv/bin/python -m pytest -q -p no:cacheprovider --timeout=900',
                   source_commits=[], add_only=True),
        engines=[dict(name='lean4-model+correspondence', path='lean/ + harness/',
                      serves_properties=sorted(CHECKS), kind_free_text='Lean 4 model + theorems (lake build, #print axioms audit) tied to /repo by differential correspondence through a compiled model driver')],
        checks=checks, not_applicable=na,
        notes='See DESIGN.md. Every check regenerates constants from /repo, rebuilds the Lean targets, audits axioms, then runs the model/implementation correspondence; a broken obligation or correspondence triggers a failing-input search on the real code.')
    json.dump(man, open(os.path.join(ROOT, 'MANIFEST.json'), 'w'), indent=1)
    print('checks:', [c['property_id'] for c in checks], 'n/a:', len(na))
main()
