#!/bin/sh
# run every thorough check (N in parallel) from the directory this script's parent is in; logs in ./tlogs
cd "$(dirname "$0")/.." || exit 2
N=${1:-4}
mkdir -p tlogs
(cd lean && /venv/bin/python ../harness/extract_constants.py >/dev/null && lake build 2>&1 | tail -2)
for i in 01 02 03 04 05 06 07 08 09 10 11 12 13 14 15 16 17 18 19 20; do echo C$i; done | \
  xargs -P "$N" -I{} sh -c '/venv/bin/python harness/check.py {} --tier thorough > tlogs/{}.log 2>&1; echo "{} exit=$? $(tail -1 tlogs/{}.log)"'
