#!/bin/sh
# seedrun.sh <prop> <round> [extra props…]: stage the sub-agent's files from /tmp/sd_<prop>/_scratch and run seedcheck in worktree mode
P=$1; R=$2; shift 2
S=/tmp/stage_$P-$R; rm -rf $S; mkdir -p $S
cp /tmp/s${R}_$P/_scratch/patch.diff /tmp/s${R}_$P/_scratch/demo.py $S/ || exit 2
cp /tmp/s${R}_$P/_scratch/NOTES.md $S/ 2>/dev/null
cd /verif && SEEDCHECK_MODE=${SEEDCHECK_MODE-wt} /venv/bin/python tools/seedcheck.py $P-$R $P $S "$@" 2>&1 | grep -v WARNING | tail -2
rm -rf $S
