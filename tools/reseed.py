#!/usr/bin/env python3
"""Regression of the machinery against the kept seeded changes: for every seeded/<id>/ (or the ids given) a scratch
worktree of /repo outside /repo and /verif gets the patch, the quick checks recorded as catching it in meta.json are
pointed at it through PMN_REPO, and the worktree is removed again.  Prints one line per seed (caught / MISSED) and exits
1 if a seed that was caught before is no longer caught.  Nothing is written to /repo, evidence/ or replays/.

usage: tools/reseed.py [-j N] [id ...]        (ids like C20-h; a bare property C20 selects all of its seeds)"""
import sys, os, json, subprocess, shutil, time
from concurrent.futures import ThreadPoolExecutor

ROOT = os.path.dirname(os.path.dirname(os.path.abspath(__file__)))

def sh(cmd, cwd=None, env=None, timeout=6000):
    p = subprocess.run(cmd, shell=True, cwd=cwd, env=env, stdout=subprocess.PIPE, stderr=subprocess.STDOUT, text=True, timeout=timeout)
    return p.returncode, p.stdout

def one(sid):
    d = os.path.join(ROOT, 'seeded', sid)
    meta = json.load(open(os.path.join(d, 'meta.json')))
    props = [p for p, r in meta.get('checks_with_change', {}).items() if r.get('violations')] or [meta['property']]
    wt = '/tmp/reseed_%s' % sid
    out = '/tmp/reseed_%s_out' % sid
    sh('git -C /repo worktree remove --force %s' % wt)
    shutil.rmtree(wt, ignore_errors=True)
    sh('git -C /repo worktree add -q --detach %s HEAD' % wt)
    # a private copy of the machinery as well: the constants of the model are regenerated from the tree under test
    vf = '/tmp/reseed_%s_v' % sid
    shutil.rmtree(vf, ignore_errors=True)
    os.makedirs(vf)
    for n in os.listdir(ROOT):
        if n in ('seeded', 'evidence', 'replays', '.git'):
            continue
        src = os.path.join(ROOT, n)
        (shutil.copytree if os.path.isdir(src) else shutil.copy2)(src, os.path.join(vf, n), **(dict(symlinks=True) if os.path.isdir(src) else {}))
    t0 = time.time()
    try:
        rc, o = sh('git apply %s/patch.diff' % d, cwd=wt)
        if rc != 0:
            return sid, 'patch-does-not-apply', [], 0.0
        env = dict(os.environ, PMN_REPO=wt, PYTHONPATH=wt, PMN_OUT=out)
        caught = []
        for p in props:
            rc, o = sh('/venv/bin/python harness/check.py %s --tier quick' % p, cwd=vf, env=env)
            if rc == 1 and any(l.startswith('VIOLATION property=%s ' % p) for l in o.split('\n')):
                caught.append(p)
                break
        return sid, ('caught' if caught else 'MISSED'), caught or props, round(time.time() - t0, 1)
    finally:
        sh('git -C /repo worktree remove --force %s' % wt)
        shutil.rmtree(wt, ignore_errors=True)
        shutil.rmtree(out, ignore_errors=True)
        shutil.rmtree(vf, ignore_errors=True)

def main():
    args = sys.argv[1:]
    jobs = 4
    if args[:1] == ['-j']:
        jobs = int(args[1]); args = args[2:]
    allids = sorted(x for x in os.listdir(os.path.join(ROOT, 'seeded')) if os.path.exists(os.path.join(ROOT, 'seeded', x, 'meta.json')))
    ids = [i for i in allids if not args or i in args or i.split('-')[0] in args]
    bad = stale = 0
    with ThreadPoolExecutor(jobs) as ex:
        for sid, res, props, wall in ex.map(one, ids):
            print('%-8s %-22s %s %.0fs' % (sid, res, ','.join(props), wall), flush=True)
            bad += res == 'MISSED'
            stale += res == 'patch-does-not-apply'
    print('seeds=%d missed=%d patch-no-longer-applies=%d (code changed by a later fix: commit)' % (len(ids), bad, stale))
    sys.exit(1 if bad else 0)

if __name__ == '__main__':
    main()
