#!/bin/sh
# run the repository's pinned test suite (baseline: 171 pass, test_vertical_ideal_ground_near always fails)
cd "${1:-/repo}" && /venv/bin/python -m pytest -q -p no:cacheprovider --timeout=900 2>&1 | tail -3
