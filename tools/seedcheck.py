#!/usr/bin/env python3
"""Confirm a seeded change: in a scratch worktree (outside /repo and /verif) the patch applies, the pinned suite
result is unchanged, the demonstration fails with the change and passes without it; then apply the patch to
/repo, run the registered quick check of the property, and undo it.  Writes seeded/<id>/meta.json."""
import sys, os, subprocess, json, shutil, time

def sh(cmd, cwd=None, env=None, timeout=3000):
    p = subprocess.run(cmd, shell=True, cwd=cwd, env=env, stdout=subprocess.PIPE, stderr=subprocess.STDOUT, text=True, timeout=timeout)
    return p.returncode, p.stdout

def main():
    sid, prop, src = sys.argv[1], sys.argv[2], sys.argv[3]     # seeded id, property, directory with patch.diff/demo.py/NOTES.md
    extra = sys.argv[4:] if len(sys.argv) > 4 else []
    dst = '/verif/seeded/%s' % sid
    os.makedirs(dst, exist_ok=True)
    for f in ('patch.diff', 'demo.py', 'NOTES.md'):
        if os.path.exists(os.path.join(src, f)):
            shutil.copy(os.path.join(src, f), os.path.join(dst, f))
    scratch = '/tmp/vscratch_%s' % sid
    sh('git -C /repo worktree remove --force %s' % scratch)
    rc, o = sh('git -C /repo worktree add -q --detach %s HEAD' % scratch)
    meta = dict(id=sid, property=prop, ran=[])
    env = dict(os.environ, PYTHONPATH=scratch)
    try:
        rc, o = sh('git apply %s/patch.diff' % dst, cwd=scratch)
        meta['applies'] = (rc == 0)
        rc, o = sh('/venv/bin/python -m pytest -q -p no:cacheprovider --timeout=900 2>&1 | tail -3', cwd=scratch, env=env)
        meta['suite_with_change'] = o.strip().split('\n')[-1]
        meta['suite_unchanged'] = ('171 passed' in o and '1 failed' in o and 'test_vertical_ideal_ground_near' in o)
        if not meta['suite_unchanged']:
            # test_timing asserts wall-clock limits and fails on a busy machine: one more run
            rc, o = sh('/venv/bin/python -m pytest -q -p no:cacheprovider --timeout=900 2>&1 | tail -3', cwd=scratch, env=env)
            meta['suite_with_change_rerun'] = o.strip().split('\n')[-1]
            meta['suite_unchanged'] = ('171 passed' in o and '1 failed' in o and 'test_vertical_ideal_ground_near' in o)
        rc1, o1 = sh('/venv/bin/python %s/demo.py' % dst, cwd=scratch, env=env, timeout=600)
        meta['demo_with_change_rc'] = rc1
        meta['demo_with_change_tail'] = o1.strip().split('\n')[-3:]
        sh('git checkout -- .', cwd=scratch)
        rc0, o0 = sh('/venv/bin/python %s/demo.py' % dst, cwd=scratch, env=env, timeout=600)
        meta['demo_without_change_rc'] = rc0
    finally:
        sh('git -C /repo worktree remove --force %s' % scratch)
        shutil.rmtree(scratch, ignore_errors=True)
    # now our checks against the change
    results = {}
    if os.environ.get('SEEDCHECK_MODE') == 'wt':
        # while something else is using /repo: a second scratch worktree with the change, checks pointed at it
        wt = '/tmp/vscratch2_%s' % sid
        out = '/tmp/vscratch2_%s_out' % sid
        sh('git -C /repo worktree remove --force %s' % wt)
        sh('git -C /repo worktree add -q --detach %s HEAD' % wt)
        sh('git apply %s/patch.diff' % dst, cwd=wt)
        env2 = dict(os.environ, PMN_REPO=wt, PYTHONPATH=wt, PMN_OUT=out)
        try:
            for p in [prop] + extra:
                t0 = time.time()
                rc, o = sh('/venv/bin/python harness/check.py %s --tier quick' % p, cwd='/verif', env=env2, timeout=3000)
                viol = [l for l in o.split('\n') if l.startswith('VIOLATION')]
                results[p] = dict(rc=rc, violations=viol[:4], wall=round(time.time() - t0, 1), mode='scratch worktree via PMN_REPO')
                if viol:
                    rp = viol[0].split('replay=')[1].split()[0]
                    try:
                        results[p]['replay'] = json.load(open(os.path.join(out, rp)))
                    except Exception:
                        pass
                elif rc != 0:
                    results[p]['tail'] = o[-800:]
        finally:
            sh('git -C /repo worktree remove --force %s' % wt)
            shutil.rmtree(wt, ignore_errors=True)
            shutil.rmtree(out, ignore_errors=True)
            sh('/venv/bin/python harness/extract_constants.py', cwd='/verif/lean')
    else:
        rc, o = sh('git -C /repo status --short')
        assert o.strip() == '', 'repo not clean: ' + o
        rc, o = sh('git -C /repo apply %s/patch.diff' % dst)
        try:
            for p in [prop] + extra:
                t0 = time.time()
                rc, o = sh('/venv/bin/python harness/check.py %s --tier quick' % p, cwd='/verif', timeout=3000)
                viol = [l for l in o.split('\n') if l.startswith('VIOLATION')]
                results[p] = dict(rc=rc, violations=viol[:4], wall=round(time.time() - t0, 1))
                # keep the first replay for the record
                if viol:
                    rp = viol[0].split('replay=')[1].split()[0]
                    try:
                        results[p]['replay'] = json.load(open('/verif/' + rp))
                    except Exception:
                        pass
        finally:
            sh('git -C /repo checkout -- .')
            sh('git -C /repo clean -fdq mininec')
    meta['checks_with_change'] = results
    meta['ran'] = ['scratch worktree: git apply; pytest (pinned command); demo.py with and without the change',
                   'git -C /repo apply patch.diff; harness/check.py <property> --tier quick; git -C /repo checkout -- .']
    json.dump(meta, open(os.path.join(dst, 'meta.json'), 'w'), indent=1, default=str)
    print(sid, prop, 'applies', meta.get('applies'), 'suite_unchanged', meta.get('suite_unchanged'),
          'demo', meta.get('demo_with_change_rc'), meta.get('demo_without_change_rc'),
          {k: (v['rc'], [x.split('replay=')[1] for x in v['violations']][:2]) for k, v in results.items()})

main()
