import subprocess, shutil, sys, os
FIX = {
 'C09': [("                        c = s * self.current [p]\n","                        c += s * self.current [p]\n")],
 'C18': [("r.append ('%d, %g, %g' % (self.idx + 1, self.magnitude, self.phase))","r.append ('%d, %g, %g' % (self.idx + 1, self.magnitude, self.phase_d))")],
 'C16': [("""        r = [np.arange (s, s + n * i, i)
             for (s, i, n) in reversed (self.nf_param)
            ]""","""        r = [s + np.arange (int (n)) * ((s + i) - s)
             for (s, i, n) in reversed (self.nf_param)
            ]""")],
 'C14': [("""        self.currents = None
        self.rhs      = None
        self.Z        = None
""","""        self.currents = None
        self.rhs      = None
        self.Z        = None
        for g in getattr (self, 'geo', None) or ():
            g.zint = None
""")],
 'C15a': [("""            ld += '+%gj' % self._impedance.imag""","""            ld += '%+gj' % self._impedance.imag""")],
 'C15b': [("tpr = '--taper-wire=%d,%d' % (self.n + 1, self.segtype)","tpr = '--taper-wire=%d,%d' % (self.tag, self.segtype)")],
 'C19': [("""            ('%2d ,%2d ,%2d' % (self.idx + 1, self.magnitude, self.phase_d))""","""            ( '%2d ,%2s ,%2s'
            % ( self.idx + 1
              , format_float ([self.magnitude]) [0].strip ()
              , format_float ([self.phase_d]) [0].strip ()
              )
            )""")],
 'BASE': [],
}
for name in sys.argv[1:]:
    d = '/tmp/repo_fix_'+name
    shutil.rmtree(d, ignore_errors=True); shutil.copytree('/repo', d)
    p = d+'/mininec/mininec.py'; s = open(p).read()
    for a,b in FIX[name]:
        assert a in s, (name, a); s = s.replace(a,b,1)
    open(p,'w').write(s)
    r = subprocess.run(['/venv/bin/python','-m','pytest','-q','-p','no:cacheprovider','-n','6','--deselect','test/test_mininec.py::Test_Case_Known_Structure::test_timing'], cwd=d, capture_output=True, text=True, env=dict(os.environ, PYTHONPATH=d))
    tail = [l for l in r.stdout.split('\n') if l.startswith('FAILED') or ' passed' in l or ' failed' in l]
    print(name, tail, flush=True)
    shutil.rmtree(d, ignore_errors=True)
