import random, sys, collections, warnings
warnings.simplefilter('ignore')
import numpy as np
from mininec.taper import taper1, taper2, Taper_Error
random.seed(1)
st = collections.Counter()
worst = 0
for it in range(40000):
    n = random.randint(2, 60)
    l = 10**random.uniform(-2, 2)
    r = l / n * 10**random.uniform(-4, -0.2)
    kw = {}
    if random.random()<0.5: kw['min_t'] = l/n*random.uniform(0.01,1.2)
    if random.random()<0.5: kw['max_t'] = l/n*random.uniform(0.9,6)
    two = random.random()<0.5
    try:
        if two: segs = list(taper2(0.0, l, n, r, **kw))
        else:
            segs = list(taper1(0.0, l, n, r, end=random.choice([0,1]), **kw))
    except Taper_Error: st['tapererr']+=1; continue
    except AssertionError: st['assert']+=1; continue
    except Exception as e: st['exc '+type(e).__name__]+=1; continue
    lens = [b-a for a,b in segs]
    ok = len(segs)==n and abs(segs[0][0])<1e-12 and abs(segs[-1][1]-l)<1e-9*l and all(abs(segs[i][1]-segs[i+1][0])<1e-12*l for i in range(n-1))
    mn = max(2.5*r, kw.get('min_t',0)); mx = kw.get('max_t', None)
    pos = all(x>0 for x in lens)
    lo = all(x >= mn*(1-1e-9) for x in lens)
    hi = mx is None or all(x <= mx*(1+1e-9) for x in lens)
    rat = max(max(lens[i+1]/lens[i], lens[i]/lens[i+1]) for i in range(n-1)) if pos else 99
    worst = max(worst, rat) if rat<99 else worst
    st['tile_ok' if ok else 'tile_bad']+=1
    st['pos' if pos else 'nonpos']+=1
    st['lo_ok' if lo else 'lo_bad']+=1
    st['hi_ok' if hi else 'hi_bad']+=1
    st['rat_ok' if rat<=2.1 else 'rat_bad']+=1
    if (not lo or not hi or rat>2.1 or not pos) and st['shown']<8:
        st['shown']+=1; print(two, n, l, r, kw, 'lo',lo,'hi',hi,'rat',rat, [round(x/l*n,3) for x in lens][:12])
print(st, worst)
