# prototype of an exact-rational model of util.format_float (what the Lean model will compute)
from fractions import Fraction as Fr
import random, struct, math, sys
from mininec.util import format_float

def ilog10_trunc(q):
    """int(log10(q)) truncated toward zero, exact, q>0 rational"""
    if q >= 1:
        e = 0
        while q >= 10: q /= 10; e += 1
        return e
    e = 0
    # q<1: log10 negative, trunc toward zero: -(k) where 10^-(k+1) <= q < 10^-k  -> value in (-(k+1), -k] -> trunc -> -k
    while q < Fr(1,10): q *= 10; e -= 1
    return e   # q in [0.1,1): log in [-1,0) -> trunc 0; 

def fixed(q, prec):
    """'% .{prec}f' % q for exact rational q (round half even)"""
    sign = '-' if q < 0 else ' '
    a = abs(q) * 10**prec
    n = a.numerator // a.denominator
    rem = a - n
    if rem > Fr(1,2) or (rem == Fr(1,2) and n % 2 == 1): n += 1
    s = str(n).rjust(prec+1, '0')
    if prec == 0: return sign + s
    return sign + s[:-prec] + '.' + s[-prec:]

def sci(q):
    """'% e' % q : 6 decimals mantissa"""
    sign = '-' if q < 0 else ' '
    a = abs(q)
    e = 0
    b = a
    while b >= 10: b /= 10; e += 1
    while b < 1: b *= 10; e -= 1
    m = b * 10**6
    n = m.numerator // m.denominator
    rem = m - n
    if rem > Fr(1,2) or (rem == Fr(1,2) and n % 2 == 1): n += 1
    if n >= 10**7: n //= 10; e += 1
    s = str(n)
    return '%s%s.%se%s%02d' % (sign, s[0], s[1:], '-' if e < 0 else '+', abs(e))

def model(f, use_e=0):
    q = Fr(f)
    if q == 0:
        fmt = ('f', 1)
    else:
        prec = 6 - ilog10_trunc(abs(q))
        if prec < 0: prec = 0
        fmt = ('f', prec)
    if use_e and abs(q) < Fr(1,10):
        fmt = ('e', None)
        if q == 0: fmt = ('f', 0)
    if fmt[0] == 'f':
        s = fixed(q, fmt[1])
        if '.' in s:
            s = s[:9].rstrip('0').rstrip('.')
            if s.startswith(' 0.') or s.startswith('-0.'):
                s = s[0] + s[2:]
            s = '%-9s' % s
    else:
        s = sci(q).upper()
    if s.strip() == '-0':
        s = ' ' + s[1:]
    return s

random.seed(int(sys.argv[1]) if len(sys.argv)>1 else 1)
bad = 0; n = 0
def check(f):
    global bad, n
    for ue in (0,1):
        n += 1
        a = format_float((f,), ue)[0]; b = model(f, ue)
        if a != b:
            bad += 1
            if bad < 30: print('DIFF', repr(f), ue, repr(a), repr(b))
for k in range(-30, 13):
    for m in (1.0, 0.9999999, 0.99999995, 0.999999999999, 1.0000001, 1.00000000001, 9.9999995, 9.99999949, 5.0, 2.5):
        for s in (1,-1):
            f = s*m*10.0**k
            check(f); check(math.nextafter(f, 0)); check(math.nextafter(f, 1e300*s))
for i in range(200000):
    e = random.uniform(-30, 12)
    f = random.choice((1,-1))*10**e
    check(f)
    check(round(f, random.randint(0,8)))
for i in range(20000):
    check(random.randint(-10**8,10**8)/10**random.randint(0,9))
print('checked', n, 'diffs', bad)
