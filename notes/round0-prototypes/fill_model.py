# per-element transcription of the DIRECT (f8=0) matrix entry vs implementation Z
import sys, warnings, random, cmath, math
warnings.simplefilter('ignore')
import numpy as np
from scipy.special import ellipk
from numpy.polynomial.legendre import leggauss
from mininec.mininec import *
LG = {n: [x/2 for x in leggauss(n)] for n in (2,4,8)}

def integrand(m, t, vec2, vecv, k, r, exact):
    if k < 0: vecv, vec2 = vec2, vecv
    v3 = vec2 + (vecv - vec2)*t
    d = np.linalg.norm(v3); d3 = d*d; a2 = r*r
    cond = r > m.srm
    if cond: d = math.sqrt(a2 + d3)
    t34 = 0j
    if cond and exact:
        b = d3/(d3 + 4*a2)
        v0 = ellipk(1-b)*math.sqrt(1-b)
        t34 += (v0 + math.log(d3/(64*a2))/2)/math.pi/r - 1/d
    return t34 + cmath.exp(-1j*d*m.w)/d

def psi(m, vec2, vecv, k, scale, pj, exact, fvs=0):
    side = int(scale > 0)
    r = pj.geo[side].r; sl = pj.segs[side].seg_len; i6 = pj.segs[side].i6
    d0 = np.linalg.norm(vec2); d3 = np.linalg.norm(vecv)
    s4 = abs(scale)*sl; t = (d0 + d3)/sl
    exact = exact and (t <= 1.1)
    f2 = 2*abs(scale) if exact else 1
    fvs_f = 2 if fvs == 1 else 1
    if exact and r <= m.srm:
        return fvs_f*math.log(sl/r) - 0.5*fvs_f*m.w*sl*1j
    n = 8
    if not exact:
        if t > 6: n = 4
        if t > 10: n = 2
    x, wq = LG[n]
    b = 1/f2
    q = sum(wi*integrand(m, (xi + .5)*b, vec2, vecv, k, r, exact) for xi, wi in zip(x, wq))
    return (q + (i6 if exact else 0))*s4

def endseg(p, ds): return (p.ends[int(ds > 0)] - p.point)*abs(ds) + p.point
def dvecs(p, ds): return (endseg(p, ds), p.point) if ds < 0 else (p.point, endseg(p, ds))

def vecpot(m, k, pi, pj, ds, xct):
    side = int(ds > 0); kvec = np.array([1,1,k])
    if pi.idx != pj.idx or k < 1 or pj.geo[side].r >= m.srm:
        a, b = dvecs(pj, ds)
        return psi(m, kvec*a - pi.point, kvec*b - pi.point, k, ds, pj, xct)
    wl = pj.segs[side].seg_len; wr = pj.geo[side].r
    return math.log(wl/wr) - 1j*m.w*wl/2

def scapot(m, k, pi, pj, ds1, ds2, xct):
    side = int(ds2 > 0); kvec = np.array([1,1,k])
    cond = (pi.idx + ds1 != pj.idx + ds2/2) or pi.geobj.n != pj.geobj.n or pj.geo[side].r >= m.srm or k < 1
    if cond:
        v1 = endseg(pi, ds1); a, b = dvecs(pj, ds2)
        return psi(m, kvec*a - v1, kvec*b - v1, k, ds2, pj, xct, fvs=1)
    wl = pj.segs[side].seg_len; wr = pj.geo[side].r
    return 2*math.log(wl/wr) - 1j*m.w*wl

def entry(m, pi, pj):
    z = 0j; scale = 0.0
    xct = pi.geobj.is_connected(pj.geobj)
    ks = [1] if m.media is None else [1, -1]
    for k in ks:
        if k < 0 and (pj.ground[0] or pj.ground[1]): continue
        kvec = np.array([1,1,k])
        u = vecpot(m, k, pi, pj, .5, xct)*pj.sign[1]
        v = vecpot(m, k, pi, pj, -.5, xct)*pj.sign[0]
        f6 = np.array([1,1,pj.gnd_sgn[0]]); f7 = np.array([1,1,pj.gnd_sgn[1]])
        vec3 = (f7*u*pj.segs[1].dirvec + f6*v*pj.segs[0].dirvec)*kvec
        zzz = sum(pi.dir_sgn[h]*pi.segs[h].seg_len*pi.segs[h].dirvec for h in (0,1))
        d = m.w2*np.sum(vec3*zzz)
        u56 = scapot(m, k, pi, pj, .5, 1, xct); sp1 = scapot(m, k, pi, pj, -.5, 1, xct)
        u34 = scapot(m, k, pi, pj, .5, -1, xct); sp2 = scapot(m, k, pi, pj, -.5, -1, xct)
        u12 = (sp1 - u56)/pj.segs[1].seg_len + (u34 - sp2)/pj.segs[0].seg_len
        z += k*(d + u12)
        scale = max(scale, abs(u), abs(v), abs(u56), abs(sp1), abs(u34), abs(sp2))
    return z, scale

random.seed(int(sys.argv[1]) if len(sys.argv) > 1 else 1)
for it in range(6):
    f = random.uniform(5, 30); gnd = it % 2 == 1
    z0 = 0.0 if gnd else 1.0
    ws = [Wire(6, 0,0,z0, 0.5,0.3,z0+3, 0.002), Wire(5, 0.5,0.3,z0+3, 2.5,-1.0,z0+3.5, 0.004), Wire(4, -1,1,z0+4, 0.5,0.3,z0+3, 0.001), Wire(5, 3,3,z0+1, 3,5,z0+2, 1e-5)]
    if gnd: ws.append(Wire(4, 4,-3,2.5, 4.2,-3.1,0, 0.002))
    m = Mininec(f, ws, media=[ideal_ground] if gnd else None)
    m.compute_impedance_matrix()
    N = len(m.pulses); Z = m.Z
    # f8 classes as in code
    bins = {'direct_far': [], 'direct_near': [], 'other': []}
    for pi in m.pulses:
        for pj in m.pulses:
            zz, sc = entry(m, pi, pj)
            rel = abs(zz - Z[pi.idx, pj.idx])/ (sc / min(pj.segs[0].seg_len, pj.segs[1].seg_len))
            same = all(p.geo[0] is p.geo[1] and p.segs[0].seg_len == p.segs[1].seg_len and (p.segs[0].dirvec == p.segs[1].dirvec).all() for p in (pi, pj)) and pi.geo[0] is pj.geo[0]
            dist = np.linalg.norm(pi.point - pj.point)/max(pj.segs[0].seg_len, pj.segs[1].seg_len, pi.segs[0].seg_len, pi.segs[1].seg_len)
            key = 'other' if same else ('direct_far' if dist >= 2.5 else 'direct_near')
            bins[key].append(rel)
    print('gnd' if gnd else 'free', 'N', N, {k: (len(v), float(max(v)) if v else None) for k, v in bins.items()})
