import random, sys, io, warnings, collections, re
warnings.simplefilter('ignore')
import numpy as np
from mininec.mininec import *
random.seed(int(sys.argv[1]) if len(sys.argv)>1 else 1)
stats = collections.Counter()
def gen():
    ground = random.random() < 0.4
    nn = random.randint(2,6)
    nodes = []
    while len(nodes) < nn:
        z = random.choice([0.0, 1.0, 2.0, 3.0]) if ground else random.choice([-1.0,0.0,1.0,2.0])
        p = (random.choice([0.,1.,2.,3.]), random.choice([0.,1.,2.]), z)
        if p not in nodes: nodes.append(p)
    nw = random.randint(1,6)
    wires = []
    used = set()
    for i in range(nw):
        a,b = random.sample(range(nn),2)
        if (a,b) in used or (b,a) in used: continue
        if ground and nodes[a][2]==0 and nodes[b][2]==0: continue
        used.add((a,b))
        wires.append((random.randint(1,4), a, b))
    return ground, nodes, wires
def run(ground, nodes, wires):
    ws = [Wire(n, *nodes[a], *nodes[b], 0.001) for n,a,b in wires]
    m = Mininec(10, ws, media=[ideal_ground] if ground else None)
    return m
viol = 0
for it in range(3000):
    ground, nodes, wires = gen()
    if not wires: continue
    try:
        m = run(ground, nodes, wires)
    except Exception as e:
        stats['exc:'+type(e).__name__+':'+str(e)[:40]] += 1
        continue
    # expected count
    ends = collections.Counter()
    gnd = 0
    for n,a,b in wires:
        for x in (a,b):
            if ground and nodes[x][2]==0: gnd += 1
            else: ends[x]+=1
    exp = sum(n-1 for n,a,b in wires) + gnd + sum(k-1 for k in ends.values())
    got = len(m.pulses)
    stats['ok' if exp==got else 'countdiff'] += 1
    if exp != got and stats['countdiff'] < 5: print('COUNT', ground, nodes, wires, exp, got)
    # KCL on report with random currents
    N = got
    if N == 0: continue
    m.current = np.array([complex(random.uniform(-1,1), random.uniform(-1,1)) for _ in range(N)])
    rep = m.currents_as_mininec().split('\n')
    # parse blocks
    node_sum = collections.defaultdict(complex)
    wi = -1; state=None
    for line in rep:
        if line.startswith('WIRE NO.'):
            wi += 1; rows=[]; 
            continue
        if line.startswith('J ') or line.startswith('E '):
            t = line.split()
            val = complex(float(t[1]), float(t[2])) if line.startswith('J') else 0
            # first J/E in block = end1 unless end1 grounded
            blk = blocks.setdefault(wi, []) if False else None
        # simpler: collect per wire list of (kind,val)
    # do it again properly
    per = collections.defaultdict(list)
    wi=-1
    for line in rep:
        if line.startswith('WIRE NO.'): wi+=1; continue
        if line[:2] in ('J ','E '):
            t=line.split(); per[wi].append(complex(float(t[1]),float(t[2])))
    bad=False
    for i,(n,a,b) in enumerate(wires):
        g = m.geo[i]
        vals = list(per[i])
        for e,x in enumerate((a,b)):
            if g.is_ground[e]: continue
            v = vals.pop(0)
            node_sum[x] += v if e==0 else -v
    for x,s in node_sum.items():
        if ends[x] >= 2 and abs(s) > 1e-5:
            bad=True
    stats['kcl_bad' if bad else 'kcl_ok'] += 1
    if bad and stats['kcl_bad']<4: print('KCL', ground, nodes, wires, dict(node_sum))
print(stats)
