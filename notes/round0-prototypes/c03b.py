import warnings; warnings.simplefilter('ignore')
import numpy as np
from mininec.mininec import *
def solve(f, wires, src, media=None):
    m = Mininec(f, [Wire(*w) for w in wires], media=media)
    for p, v in src: m.register_source(Excitation(cvolt=v), p)
    m.compute(); return m
f=14.0
for r in (0.0005, 0.002, 0.003, 0.01):
  for top in (True, False):
    Wg = [(8, 0,0,0, 0,0,3.0, r)] + ([(6, 0,0,3.0, 2.0,1.0,4.0, r)] if top else [])
    Wf = [(16, 0,0,-3.0, 0,0,3.0, r)] + ([(6, 0,0,3.0, 2.0,1.0,4.0, r), (6, 0,0,-3.0, 2.0,1.0,-4.0, r)] if top else [])
    mg = solve(f, Wg, [(0, 1+0j)], media=[ideal_ground]); mf = solve(f, Wf, [(7, 1+0j)])
    zg = mg.sources[0].impedance; zf = mf.sources[0].impedance/2
    mg2 = solve(f, Wg, [(4, 1+0j)], media=[ideal_ground]); mf2 = solve(f, Wf, [(11, 1+0j),(3, 1+0j)])
    print('r', r, 'srm', mg.srm, 'top', top, 'grounded-feed rel', abs(zg-zf)/abs(zg), 'elevated rel', abs(mg2.sources[0].impedance-mf2.sources[0].impedance)/abs(mf2.sources[0].impedance))
