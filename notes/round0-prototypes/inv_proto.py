import sys, warnings, random
warnings.simplefilter('ignore')
import numpy as np
from mininec.mininec import *
from mininec.mininec import Rotation_Matrix
def solve(f, wires, src, media=None, loads=()):
    ws = [Wire(*w) for w in wires]
    m = Mininec(f, ws, media=media)
    for (p, v) in src:
        m.register_source(Excitation(cvolt=v), p)
    m.compute()
    return m
def rel(a,b): return abs(a-b)/abs(a)
f = 14.0; lam = 299.8/f
# bent dipole / inverted-L-like in free space: 3 wires
W = [(8, 0,0,0, 0,0,3.0, 0.002), (6, 0,0,3.0, 2.0,1.0,4.0, 0.002), (5, 0,0,3.0, -1.5,0.5,3.5, 0.001)]
m0 = solve(f, W, [(3, 1+0j)])
z0 = m0.sources[0].impedance
print('base', z0, 'cond', np.linalg.cond(m0.Z), 'N', len(m0.pulses))
# C05 rotation + translation
R = Rotation_Matrix([33, -71, 140]).m; t = np.array([12.3, -4.5, 77.0])
def tr(w):
    p1 = R @ np.array(w[1:4]) + t; p2 = R @ np.array(w[4:7]) + t
    return (w[0], *p1, *p2, w[7])
m1 = solve(f, [tr(w) for w in W], [(3, 1+0j)])
print('C05 rot/trans relZ', rel(z0, m1.sources[0].impedance), 'max rel I', np.max(np.abs(m1.current-m0.current))/np.max(np.abs(m0.current)))
# scaling
s = 7.3
m2 = solve(f/s, [(w[0], *(np.array(w[1:7])*s), w[7]*s) for w in W], [(3, 1+0j)])
print('C05 scale relZ', rel(z0, m2.sources[0].impedance))
# C06 reversal of wire 2 and 3
def rev(w): return (w[0], *w[4:7], *w[1:4], w[7])
for name, WW in (('rev2', [W[0], rev(W[1]), W[2]]), ('rev1', [rev(W[0]), W[1], W[2]]), ('rev all', [rev(w) for w in W]), ('perm', [W[2], W[0], W[1]]), ('perm2',[W[1],W[2],W[0]])):
    # find the source pulse by position: point (0,0, 3*3/8)
    ws = [Wire(*w) for w in WW]; mm = Mininec(f, ws)
    target = m0.pulses[3].point
    idx = [p.idx for p in mm.pulses if np.linalg.norm(p.point-target)<1e-9]
    mm.register_source(Excitation(cvolt=1+0j), idx[0]); mm.compute()
    print('C06', name, 'N', len(mm.pulses), 'relZ', rel(z0, mm.sources[0].impedance))
# C03 image: vertical + sloping top over ground vs free+mirror
Wg = [(8, 0,0,0, 0,0,3.0, 0.002), (6, 0,0,3.0, 2.0,1.0,4.0, 0.002)]
mg = solve(f, Wg, [(0, 1+0j)], media=[ideal_ground])   # source on grounded pulse 0
zg = mg.sources[0].impedance
# free space: wire from -3..3 with 16 seg + two top wires mirrored
Wf = [(16, 0,0,-3.0, 0,0,3.0, 0.002), (6, 0,0,3.0, 2.0,1.0,4.0, 0.002), (6, 0,0,-3.0, 2.0,1.0,-4.0, 0.002)]
mf = solve(f, Wf, [(7, 1+0j)])
print('C03 grounded-feed: Zg', zg, 'Zfree/2', mf.sources[0].impedance/2, 'rel', rel(zg, mf.sources[0].impedance/2))
# elevated feed
mg2 = solve(f, Wg, [(4, 1+0j)], media=[ideal_ground])
mf2 = solve(f, Wf, [(7+4, 1+0j), (7-4, 1+0j)])
print('C03 elevated: Zg', mg2.sources[0].impedance, 'Zf', mf2.sources[0].impedance, 'rel', rel(mg2.sources[0].impedance, mf2.sources[0].impedance))
