# Prototype of the discrete Topo model (what the Lean model will be), compared with the implementation
import random, sys, warnings, collections
warnings.simplefilter('ignore')
import numpy as np
from mininec.mininec import *

class TopoErr(Exception): pass

def topo_model(objs, tol):
    """objs: list of dict(nseg, ends=[p0,p1] (tuples), ground=[b,b]) in processing order.
       returns dict with conn, end_segs, pulses"""
    reg = []   # list of (coords, (n2, other)) insertion order
    N = len(objs)
    conn = [[[], []] for _ in range(N)]           # entries (geobj, ow, end_idx, sign)
    geoset = [[set(), set()] for _ in range(N)]
    sgnby = [[{}, {}] for _ in range(N)]
    end_segs = [[None, None] for _ in range(N)]
    pulses = []   # dict(geo=(a,b), sgn=(s0,s1), gnd=None/0/1, owner)
    per_obj = [[] for _ in range(N)]
    def add(o, e, geobj, ow, end_idx, sign, sign2):
        if geobj in geoset[o][e]: raise TopoErr('dup')
        geoset[o][e].add(geobj); conn[o][e].append((geobj, ow, end_idx, sign)); sgnby[o][e][ow] = sign2
    def idx(o, e):
        if objs[o]['ground'][e]: return -(o + 1)
        if conn[o][e]:
            return (1 + conn[o][e][0][0]) * sgnby[o][e][o]
        return 0
    for n, ob in enumerate(objs):
        for n1 in (0, 1):
            if ob['ground'][n1]: continue
            p = ob['ends'][n1]
            hit = None
            for c, v in reg:
                if c == p: hit = v; break
            if hit is None:
                for c, v in reg:
                    if np.linalg.norm(np.array(c) - np.array(p)) <= tol:
                        hit = v; reg.append((p, v)); break
            if hit is None:
                reg.append((p, (n1, n)))
            else:
                n2, other = hit
                s = -1 if n2 == n1 else 1
                add(other, n2, n, n, n1, s, s)
                add(n, n1, other, n, n1, 1, s)
        i1, i2 = idx(n, 0), idx(n, 1)
        start = len(pulses); nseg = ob['nseg']
        end_segs[n][0] = start
        if nseg == 1 and i1 == 0: end_segs[n][0] = None
        npulse = nseg - (i1 == 0) - (i2 == 0)
        if conn[n][0] and conn[n][0][0][0] == n: npulse -= 1
        end_segs[n][1] = start + npulse
        if nseg == 1 and i2 == 0: end_segs[n][1] = None
        def mk(geo, sgn, gnd):
            pulses.append(dict(geo=geo, sgn=sgn, gnd=gnd, owner=n)); per_obj[n].append(len(pulses) - 1)
        if i1 != 0 and abs(i1) - 1 != n:
            mk((abs(i1) - 1, n), (int(np.sign(i1)), 1), None)
        elif ob['ground'][0]:
            mk((n, n), (1, 1), 0)
        for i in range(nseg - 1): mk((n, n), (1, 1), None)
        if ob['ground'][1]: mk((n, n), (1, 1), 1)
        elif i2 != 0: mk((n, abs(i2) - 1), (1, int(np.sign(i2))), None)
    # J coefficient rows (fixed semantics: sum)
    J = {}
    for n in range(N):
        for e in (0, 1):
            if objs[n]['ground'][e]: continue
            if not conn[n][e]: J[(n, e)] = 'E'; continue
            J[(n, e)] = [(end_segs[ow][ix], s) for (g, ow, ix, s) in sorted(conn[n][e], key=lambda x: x[0])]
    return dict(conn=conn, end_segs=end_segs, pulses=pulses, per_obj=per_obj, J=J)

random.seed(int(sys.argv[1]) if len(sys.argv) > 1 else 1)
st = collections.Counter()
for it in range(4000):
    ground = random.random() < 0.4
    nn = random.randint(2, 6); nodes = []
    while len(nodes) < nn:
        z = random.choice([0.0, 1.0, 2.0, 3.0]) if ground else random.choice([-1.0, 0.0, 1.0, 2.0])
        p = (random.choice([0., 1., 2., 3.]), random.choice([0., 1., 2.]), z)
        if p not in nodes: nodes.append(p)
    wires = []; used = set()
    for i in range(random.randint(1, 7)):
        a, b = random.sample(range(nn), 2)
        if (a, b) in used or (b, a) in used: continue
        if ground and nodes[a][2] == 0 and nodes[b][2] == 0: continue
        used.add((a, b)); wires.append((random.randint(1, 4), a, b))
    if not wires: continue
    fuzz = random.random() < 0.3
    def P(x):
        p = np.array(nodes[x])
        if fuzz: p = p + np.array([random.uniform(-1, 1) for _ in range(3)]) * 2e-5 * (0 if (ground and nodes[x][2]==0) else 1) 
        return tuple(float(v) for v in p)
    ws = []
    for n, a, b in wires:
        ws.append(Wire(n, *P(a), *P(b), 0.001))
    try:
        m = Mininec(10, ws, media=[ideal_ground] if ground else None)
    except Exception as e:
        st['impl_exc ' + type(e).__name__] += 1; continue
    objs = [dict(nseg=w.n_segments, ends=[tuple(float(x) for x in w.endpoints[0]), tuple(float(x) for x in w.endpoints[1])], ground=list(w.is_ground)) for w in m.geo]
    try:
        r = topo_model(objs, m.min_seglen * 1e-3)
    except TopoErr:
        st['model_err'] += 1; continue
    ok = True
    for n, w in enumerate(m.geo):
        for e in (0, 1):
            ic = [(g.n, ow.n, ix, s) for (g, ow, ix, s) in w.conn[e].list]
            if ic != r['conn'][n][e]: ok = False; why = ('conn', n, e, ic, r['conn'][n][e])
        if list(w.end_segs) != r['end_segs'][n]: ok = False; why = ('end_segs', n, list(w.end_segs), r['end_segs'][n])
        if [p.idx for p in w.pulses] != r['per_obj'][n]: ok = False; why = ('per_obj', n)
    if len(m.pulses) != len(r['pulses']): ok = False; why = ('count',)
    else:
        for p, q in zip(m.pulses, r['pulses']):
            gnd = None
            if p.ground[0]: gnd = 0
            if p.ground[1]: gnd = 1
            if (p.geo[0].n, p.geo[1].n) != q['geo'] or tuple(int(x) for x in p.dir_sgn) != q['sgn'] or gnd != q['gnd'] or p.geobj.n != q['owner']:
                ok = False; why = ('pulse', p.idx, (p.geo[0].n, p.geo[1].n), q)
    # J lines (end 2 only is correct in impl; compare pulse_iter content for both ends)
    for n, w in enumerate(m.geo):
        for e in (0, 1):
            if w.is_ground[e]: continue
            if not w.conn[e]:
                if r['J'][(n, e)] != 'E': ok = False; why = ('J-E', n, e)
            else:
                if list(w.conn[e].pulse_iter()) != r['J'][(n, e)]: ok = False; why = ('J', n, e, list(w.conn[e].pulse_iter()), r['J'][(n, e)])
    st['agree' if ok else 'DISAGREE'] += 1
    st['fuzz' if fuzz else 'exact'] += 1
    if not ok and st['DISAGREE'] < 5: print(why, wires, ground)
print(st)
