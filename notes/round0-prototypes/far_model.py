# per-element transcription of compute_far_field (what Pmn.Model.Far will be) vs implementation
import sys, warnings, random, cmath, math
warnings.simplefilter('ignore')
import numpy as np
from mininec.mininec import *

def far_model(m, thetas, phis, dist=0, pwr=None):
    w = m.w; g0 = 29.979221; k9 = .016678 / m.power
    I = m.current
    media = m.media
    ideal = (not media) or media[0].is_ideal
    ks = [1] if media is None else [1, -1]
    out = {}
    for ph in phis:
        for th in thetas:
            t = th/180*math.pi; p = ph/180*math.pi
            rhat = (math.sin(t)*math.cos(p), math.sin(t)*math.sin(p), math.cos(t))
            that = (math.cos(t)*math.cos(p), math.cos(t)*math.sin(p), -math.sin(t))
            phat = (-math.sin(p), math.cos(p), 0.0)
            G = [0j,0j,0j]
            for k in ks:
                for pu in m.pulses:
                    for h in (0,1):
                        seg = pu.segs[h]
                        f3 = pu.sign[h]*w*seg.seg_len/2
                        d = seg.dirvec
                        # masks
                        if pu.ground[h]: continue
                        if k == 1 or ideal:
                            mask = (k, k, 1)
                            if pu.inv_ground[h]:
                                mask = (0,0,2) if k == 1 else (0,0,0)
                            x = pu.point
                            s2 = w*(x[0]*rhat[0] + x[1]*rhat[1] + k*x[2]*rhat[2])
                            b = f3*cmath.exp(1j*s2)*I[pu.idx]
                            for c in range(3): G[c] += mask[c]*d[c]*b
                        else:
                            if pu.inv_ground[h]: continue
                            mask = (k,k,1)
                            x = pu.point
                            ct, st = math.cos(t), math.sin(t)
                            # rt3 = zcs = cos t - j sin t ; rt3.imag = -sin t
                            t4 = 1e5 if ct == 0 else (-x[2]*(-st))/ct
                            b9 = t4*math.cos(p) + x[0]
                            if m.boundary != 'linear':
                                b9 = math.sqrt(b9*b9 + (t4*math.sin(p) + x[1])**2)   # -t4*acs.imag = t4 sin p
                            j2 = 0
                            for jj, md in enumerate(media):
                                if not (b9 > md.coord): j2 = jj; break
                            else: j2 = 0
                            z45 = media[j2].impedance(m.f)
                            nr, rr = media[0].nradials, media[0].radius
                            if nr != 0 and j2 == 0:
                                prod = nr*rr; r = b9 + prod
                                z8 = w*r*math.log(r/prod)/nr
                                z45 = (z45*z8*1j)/(z45 + z8*1j)
                            w67 = cmath.sqrt(1 - z45**2*st**2)
                            v89 = (ct - w67*z45)/(ct + w67*z45)
                            h89 = (w67 - ct*z45)/(w67 + ct*z45) - v89
                            hh = media[j2].height*2
                            s2 = w*(x[0]*rhat[0] + x[1]*rhat[1] + k*(x[2]-hh)*rhat[2])
                            b = f3*cmath.exp(1j*s2)*I[pu.idx]
                            dd = -math.sin(p)*d[0] + math.cos(p)*d[1]
                            z67 = dd*b*h89
                            tm = (-math.sin(p)*z67, math.cos(p)*z67, 0)
                            for c in range(3): G[c] += (d[c]*b*v89 + tm[c])*mask[c]
            h12 = sum(G[c]*that[c] for c in range(3))*g0*(-1j)
            x34 = (G[0]*phat[0] + G[1]*phat[1])*g0*(-1j)
            t1 = k9*abs(h12)**2; t2 = k9*abs(x34)**2
            out[(th,ph)] = (t1, t2, t1+t2, h12, x34)
    return out

random.seed(int(sys.argv[1]) if len(sys.argv)>1 else 1)
worst = 0
for it in range(40):
    f = random.uniform(5, 30)
    kind = random.choice(['free','ideal','real1','real2lin','real2circ','radials'])
    zoff = 0 if kind != 'free' and random.random()<0.6 else random.uniform(1,5)
    ws = [Wire(6, 0,0,zoff, 0.5,0.3,zoff+3, 0.002), Wire(5, 0.5,0.3,zoff+3, 2.5,-1.0,zoff+3.5, 0.002), Wire(4, 0.5,0.3,zoff+3, -1,1,zoff+4, 0.001)]
    if kind != 'free' and random.random()<0.5:
        ws.append(Wire(4, 3,3,2.5, 3.2,3.1,0, 0.002))   # grounded at end 2
    media = None
    if kind == 'ideal': media = [ideal_ground]
    if kind == 'real1': media = [Medium(random.uniform(1,80), 10**random.uniform(-4,1))]
    if kind == 'real2lin': media = [Medium(13, 0.005, coord=random.uniform(1,20)), Medium(80, 4, height=random.choice([0,-2]))]
    if kind == 'real2circ': media = [Medium(13, 0.005, coord=random.uniform(1,20), boundary='circular'), Medium(5, 0.001, height=-1, boundary='circular')]
    if kind == 'radials': media = [Medium(13, 0.005, nradials=16, radius=0.001, coord=random.uniform(2,20)), Medium(5, 0.001, height=0)]
    m = Mininec(f, ws, media=media)
    m.register_source(Excitation(cvolt=1+0.3j), 2)
    m.register_source(Excitation(cvolt=0.2-1j), len(m.pulses)-1)
    m.compute()
    ths = [0, 17.5, 45, 88, 90]; phs = [0, 33, 123.4, 270, 393]
    m.compute_far_field(Angle(0,1,1), Angle(0,1,1))
    class A(Angle):
        def __init__(s, v): s.v=np.array(v, dtype=float); s.initial=v[0]; s.inc=0; s.number=len(v)
        def angle_deg(s): return s.v
    m.compute_far_field(A(ths), A(phs))
    mod = far_model(m, ths, phs)
    gain = m.far_field.gain   # shape (nth, nph, 3) dB
    et = m.far_field.e_theta; ep = m.far_field.e_phi
    mx = max(v[2] for v in mod.values())
    for ti, th in enumerate(ths):
        for pi_, ph in enumerate(phs):
            t1,t2,t3,h12,x34 = mod[(th,ph)]
            gl = 10**(gain[ti][pi_]/10)
            for a,b in zip((t1,t2,t3), gl):
                if gain[ti][pi_][0] > -900 and gain[ti][pi_][1] > -900:
                    worst = max(worst, abs(a-b)/mx)
            worst = max(worst, abs(et[pi_][ti] - h12)/math.sqrt(mx/ (.016678/m.power)) ) if et.shape == (len(phs), len(ths)) else worst
    print(kind, 'N', len(m.pulses), 'worst so far', worst, et.shape)
